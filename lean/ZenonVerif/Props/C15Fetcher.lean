import ZenonVerif.Lemmas.Fetcher
import ZenonVerif.Gen.Proto
/-
C15 — "untrusted peers cannot crash, stall or bloat the node … or make it allocate more than the protocol's stated limits" and
C16 — "the node never ends up holding a block that failed verification", for the block FETCHER (protocol/fetcher/fetcher.go:
NewBlockHashes / NewBlock / Blocks → Notify / Enqueue / Filter → loop). Model: Model/Fetcher.lean, a transition system over
events from any number of peers, in any order, without bound on the length; `Reach v s` = reachable under variant `v`.
Property theorems only.

  bloat     `queue_bounded`, `total_memory_bounded` (code as it is): per peer ≤ blockLimit queued blocks, in total ≤ peers × blockLimit,
            every one within [h − maxUncleDist, h + maxQueueDist] of the chain height h read when it was accepted; each block is one
            message, so at most `ProtocolMaxMsgSize` bytes (C15.size_gate).
            `announces_bounded` (code as it is, since the repair of finding FGD1: the timer case counts the fetch it starts): per
            peer ≤ hashLimit pending announcements (waiting in f.announced or being fetched); `announces_bounded_of_counting` is the
            same for every variant that counts. FALSE OF THE TREE BEFORE THE REPAIR (variant `beforeFGD1`): `forgetHash` lowered the
            counter for a pending fetch that was never counted, the counter went negative (`beforeFGD1_counter_goes_negative`) and
            the limit was lifted by as much (`beforeFGD1_limit_lifted`); `code_limit_holds`: the same input on the code as it is.
            `announce_counter_bounded` (the COUNTER stays ≤ hashLimit) holds of every variant.
  no leak   `counters_consistent` (code as it is): in every reachable state BOTH per-peer counters equal the number of that peer's
            entries; `counters_consistent_of` per variant flag; `beforeFGD1_announce_counter_inconsistent`.
  blame     `only_offender_dropped`: dropPeer is called only by the goroutine of `insert`, with the origin of the entry it
            imports, when that block's parent is known and validateBlock refused it (not when insertChain fails: follows the code).
  C16       `never_imports_unqueued` / `import_in_height_order`: insertChain is handed only an entry that is in f.queued, popped
            by an import pass that read a chain height h with block height ≤ h+1 and ≥ h − maxUncleDist, whose parent is known and
            which passed validateBlock; `import_once` / `failed_import_not_kept`: when its goroutine ends — whatever the outcome —
            no entry of that hash is left in the fetcher.
  liveness  `loop_total` (every event is handled in every state: the step function is total and keeps the invariant; the two Go
            expressions that could panic, `announces[0]` and `rand.Intn(len(announces))`, are applied to a non-empty group:
            `group_nonempty`), `due_group_leaves_announced`, `old_fetch_forgotten`, `announcement_expires_partial`.
  variants  `counter_leak_in_variant` (forgetBlock does not lower the counter: an honest peer is muted for ever),
            `far_future_block_queued_in_variant` (distance test dropped).
  code      `…_in_code`: generated facts pin the shape the model follows.
-/
namespace ZV.C15Fetcher
open ZV ZV.Fetcher ZV.Gen

/-! ### the code is what the model follows (generated facts) -/

theorem limits_in_code :
    FeArriveTimeoutMs = 500 ∧ FeGatherSlackMs = 100 ∧ FeFetchTimeoutMs = 5000 ∧ FeMaxUncleDist = 7 ∧ FeMaxQueueDist = 32 ∧
    FeHashLimit = 256 ∧ FeBlockLimit = 64 ∧ PeerMaxKnownTxs = 32768 ∧ PeerMaxKnownBlocks = 1024 ∧
    PeerKnownSetConstructors = ["lru.New(maxKnownTxs)", "lru.New(maxKnownBlocks)"] := by decide

/-- `enqueue`: per-peer count first, then the distance (both bounds), then the duplicate test; only then the three writes -/
theorem enqueue_tests_in_code :
    FeEnqueueShape =
      ["block := detailed.Momentum", "hash := block.Hash", "count := f.queues[peer] + 1", "if count > blockLimit {", "return", "}",
       "if dist := int64(block.Height) - int64(f.chainHeight()); dist < -maxUncleDist || dist > maxQueueDist {", "return", "}",
       "if _, ok := f.queued[hash]; !ok {", "op := &inject{ origin: peer, detailed: detailed, }", "f.queues[peer] = count",
       "f.queued[hash] = op", "f.queue.Push(op, -float32(block.Height))", "}"] ∧
    FeInjectCaseShape = ["f.enqueue(op.origin, op.detailed)"] := by decide

theorem notify_case_in_code :
    FeNotifyCaseShape =
      ["count := f.announces[notification.origin] + 1", "if count > hashLimit {", "break", "}",
       "if _, ok := f.fetching[notification.hash]; ok {", "break", "}", "f.announces[notification.origin] = count",
       "f.announced[notification.hash] = append(f.announced[notification.hash], notification)", "if len(f.announced) == 1 {",
       "f.reschedule(fetch)", "}"] := by decide

/-- the timer case moves a due group to `f.fetching` after `forgetHash` and RAISES the counter of the announcer it fetches from
    right after storing the fetch (`code.countFetching`: the repair of finding FGD1) — the working tree is the variant `repaired`,
    not `beforeFGD1`. If the increment disappears again this theorem fails, and so does every theorem below stated for `code`. -/
theorem timer_case_in_code :
    FeTimerDueShape =
      ["if time.Since(announces[0].time) > arriveTimeout-gatherSlack {", "announce := announces[rand.Intn(len(announces))]",
       "f.forgetHash(hash)", "if f.getBlock(hash) == nil {", "request[announce.origin] = append(request[announce.origin], hash)",
       "f.fetching[hash] = announce", "f.announces[announce.origin]++", "}", "}"] ∧
    FeTimerCountsFetching = true ∧ code = repaired ∧ code ≠ beforeFGD1 := by decide

theorem forget_in_code :
    FeForgetHashShape =
      ["for range f.announced[hash] {", "f.announces[announce.origin]--", "if f.announces[announce.origin] == 0 {",
       "delete(f.announces, announce.origin)", "}", "}", "delete(f.announced, hash)",
       "if announce := f.fetching[hash]; announce != nil {", "f.announces[announce.origin]--",
       "if f.announces[announce.origin] == 0 {", "delete(f.announces, announce.origin)", "}", "delete(f.fetching, hash)", "}"] ∧
    FeForgetBlockShape =
      ["if insert := f.queued[hash]; insert != nil {", "f.queues[insert.origin]--", "if f.queues[insert.origin] == 0 {",
       "delete(f.queues, insert.origin)", "}", "delete(f.queued, hash)", "}"] ∧
    FeDoneCaseShape = ["f.forgetHash(hash)", "f.forgetBlock(hash)"] := by decide

/-- `insert`: the goroutine ends with `f.done <- hash` whatever happens (deferred); parent lookup, validateBlock, propagation,
    `default:` dropPeer(peer) — the only dropPeer of the package, its argument the first argument of `insert`, which the loop
    calls with `op.origin` — insertChain, announcement -/
theorem insert_in_code :
    FeInsertShape =
      ["momentum := detailed.Momentum", "hash := momentum.Hash", "go func() {", "defer func() {", "f.done <- hash", "}()",
       "parent := f.getBlock(momentum.PreviousHash)", "if parent == nil {", "return", "}",
       "switch err := f.validateBlock(momentum, parent.Momentum); err {", "case nil:", "go func() {",
       "f.broadcastBlock(detailed, true)", "}()", "default:", "f.dropPeer(peer)", "return", "}", "f.wg.Add(1)",
       "if _, err := f.insertChain([]*nom.DetailedMomentum{detailed}); err != nil {", "f.wg.Done()", "return", "} else {",
       "f.wg.Done()", "}", "go func() {", "f.broadcastBlock(detailed, false)", "}()", "if f.importedHook != nil {",
       "f.importedHook(momentum)", "}", "}()"] ∧
    FeDropPeerArgs = ["peer"] ∧ FeInsertCallArgs = ["op.origin, op.detailed"] := by decide

theorem loop_head_in_code :
    FeLoopHeadShape =
      ["for range f.fetching {", "if time.Since(announce.time) > fetchTimeout {", "f.forgetHash(hash)", "}", "}",
       "height := f.chainHeight()", "for !f.queue.Empty() {", "op := f.queue.PopItem().(*inject)", "momentum := op.detailed.Momentum",
       "number := momentum.Height", "if number > height+1 {", "f.queue.Push(op, -float32(momentum.Height))", "break", "}",
       "hash := momentum.Hash", "if number+maxUncleDist < height || f.getBlock(hash) != nil {", "f.forgetBlock(hash)", "continue",
       "}", "f.insert(op.origin, op.detailed)", "}"] := by decide

/-! ### bloat -/

/-- code as it is (and every variant that keeps `forgetBlock`'s decrement): per peer at most blockLimit queued blocks -/
theorem queue_bounded {v : Variant} {s : St} (hr : Reach v s) (hv : v.decOnForget = true) (p : Nat) :
    cntQ s.queued p ≤ FeBlockLimit := by
  have hi := reach_inv hr
  have h1 := hi.qcons hv p
  have h2 := hi.qle p
  omega

/-- total memory: with `ps` the peers that own an entry, at most `ps.length × blockLimit` blocks are queued, each accepted within
    [h − maxUncleDist, h + maxQueueDist] of the chain height `h` read by `enqueue` (`hAt`), each at most one message in size. -/
theorem total_memory_bounded {s : St} (hr : Reach code s) (ps : List Nat) (hps : ∀ i ∈ s.queued, i.origin ∈ ps) :
    s.queued.length ≤ ps.length * FeBlockLimit ∧
    (∀ i ∈ s.queued, i.hAt ≤ i.blk.height + FeMaxUncleDist ∧ i.blk.height ≤ i.hAt + FeMaxQueueDist) ∧
    ProtocolMaxMsgSize = 10 * 1024 * 1024 :=
  ⟨length_le_peers _ ps _ hps (fun p => queue_bounded hr rfl p), (reach_inv hr).dist rfl, by decide⟩

example : Reach code (run code {} [.enqueue 1 ⟨5, 2, 0, true, true⟩, .enqueue 2 ⟨6, 3, 5, true, true⟩]) ∧
    (run code {} [.enqueue 1 ⟨5, 2, 0, true, true⟩, .enqueue 2 ⟨6, 3, 5, true, true⟩]).queued.length = 2 :=
  ⟨.step _ (.step _ (.init [] 0)), by decide⟩

/-- the COUNTER of pending announcements never exceeds hashLimit (every variant, the code as it is included) -/
theorem announce_counter_bounded {v : Variant} {s : St} (hr : Reach v s) (p : Nat) : s.announces p ≤ (FeHashLimit : Int) :=
  (reach_inv hr).ale p

/-- every variant in which the timer case counts the fetch it starts: per peer at most hashLimit pending announcements
    (waiting in f.announced or being fetched). Not a theorem without the premise: see `beforeFGD1_limit_lifted`. -/
theorem announces_bounded_of_counting {v : Variant} {s : St} (hr : Reach v s) (hv : v.countFetching = true) (p : Nat) :
    cntA s.announced p + cntA s.fetching p ≤ FeHashLimit := by
  have hi := reach_inv hr
  have h1 := hi.acons hv p
  have h2 := hi.ale p
  omega

/-- the code as it is (fact `FeTimerCountsFetching`, true since the repair of finding FGD1): whatever any number of peers send, in
    whatever order, a peer never has more than hashLimit pending announcements (waiting in f.announced or being fetched). -/
theorem announces_bounded {s : St} (hr : Reach code s) (p : Nat) :
    cntA s.announced p + cntA s.fetching p ≤ FeHashLimit :=
  announces_bounded_of_counting hr rfl p

example : Reach code (run code {} [.notify 1 7 0, .tick 401, .timer 0]) ∧
    (run code {} [.notify 1 7 0, .tick 401, .timer 0]).fetching.length = 1 :=
  ⟨.step _ (.step _ (.step _ (.init [] 0))), by decide⟩

/-! ### no leak -/

/-- per variant: `f.queues` equals the number of that peer's queued entries in every variant that keeps forgetBlock's decrement,
    `f.announces` the number of its pending announcements in every variant that counts fetches -/
theorem counters_consistent_of {v : Variant} {s : St} (hr : Reach v s) (p : Nat) :
    (v.decOnForget = true → s.queues p = (cntQ s.queued p : Nat)) ∧
    (v.countFetching = true → s.announces p = ((cntA s.announced p + cntA s.fetching p : Nat) : Int)) :=
  ⟨fun h => (reach_inv hr).qcons h p, fun h => (reach_inv hr).acons h p⟩

/-- the code as it is: in every reachable state BOTH per-peer counters equal the number of that peer's entries — nothing leaks
    and nothing is under-counted after any forget / failed import / expiry (the announce half since the repair of FGD1) -/
theorem counters_consistent {s : St} (hr : Reach code s) (p : Nat) :
    s.queues p = (cntQ s.queued p : Nat) ∧ s.announces p = ((cntA s.announced p + cntA s.fetching p : Nat) : Int) :=
  ⟨(counters_consistent_of hr p).1 rfl, (counters_consistent_of hr p).2 rfl⟩

theorem queue_counter_consistent_in_code {s : St} (hr : Reach code s) (p : Nat) : s.queues p = (cntQ s.queued p : Nat) :=
  (counters_consistent hr p).1

/-- FINDING FGD1 (fixed), the tree before the repair: one announcement that is fetched and never delivered (notify, 401 ms, timer,
    5001 ms, any wake-up) left the peer's counter at −1 with nothing pending — every such round lowered it by one more.
    The code as it is ends the same round at 0. -/
theorem beforeFGD1_counter_goes_negative :
    (let s := run beforeFGD1 {} [.notify 1 7 0, .tick 401, .timer 0, .tick 5001]
     s.announces 1 = -1 ∧ s.announced = [] ∧ s.fetching = []) ∧
    (let s := run code {} [.notify 1 7 0, .tick 401, .timer 0, .tick 5001]
     s.announces 1 = 0 ∧ s.announced = [] ∧ s.fetching = []) := by decide

theorem beforeFGD1_announce_counter_inconsistent :
    ∃ s, Reach beforeFGD1 s ∧ s.announces 1 ≠ ((cntA s.announced 1 + cntA s.fetching 1 : Nat) : Int) :=
  ⟨run beforeFGD1 {} [.notify 1 7 0, .tick 401, .timer 0], .step _ (.step _ (.step _ (.init [] 0))), by decide⟩

set_option maxRecDepth 100000 in
/-- …and the limit was lifted by as much: a peer whose counter stands at −k is granted hashLimit + k pending announcements
    (here k = 2 after two unanswered fetches, then hashLimit + 2 announcements of distinct hashes are all stored). -/
theorem beforeFGD1_limit_lifted :
    let s := run beforeFGD1 {} ([.notify 1 7 0, .notify 1 8 0, .tick 401, .timer 0, .tick 5001] ++
      (List.range (FeHashLimit + 2)).map (fun i => Ev.notify 1 (100 + i) 5402))
    cntA s.announced 1 = FeHashLimit + 2 := by decide

set_option maxRecDepth 100000 in
/-- the same input on the code as it is: the counter is back at 0 and the flood is cut at hashLimit -/
theorem code_limit_holds :
    let s := run code {} ([.notify 1 7 0, .notify 1 8 0, .tick 401, .timer 0, .tick 5001] ++
      (List.range (FeHashLimit + 2)).map (fun i => Ev.notify 1 (100 + i) 5402))
    cntA s.announced 1 = FeHashLimit := by decide

/-! ### blame -/

/-- dropPeer is called by one event only — the end of an import goroutine — and with the origin of the entry that goroutine
    imports, whose parent is known and which validateBlock refused. No other peer, no other reason (a failing insertChain
    drops nobody: the code's choice). -/
theorem only_offender_dropped (v : Variant) (s : St) (e : Ev) :
    (step v s e).dropped = s.dropped ∨
    ∃ h nh i, e = .finish h nh ∧ i ∈ s.queued ∧ i.st.isSome = true ∧ i.blk.hash = h ∧ i.blk.vOk = false ∧
      s.known.contains i.blk.parent = true ∧ (step v s e).dropped = i.origin :: s.dropped := by
  have hh : (step v s e).dropped = (handle v s e).dropped := congrArg (·.1) (head_env v (handle v s e))
  rw [hh]
  cases e with
  | notify p h t => exact .inl (congrArg (·.1) (onNotify_env s p h t))
  | enqueue p b => exact .inl (congrArg (·.1) (enqueue_env v s p b))
  | timer k => exact .inl (congrArg (·.1) (onTimer_env v s k))
  | deliver bs => exact .inl (congrArg (·.1) (onDeliver_env v s bs))
  | tick d => exact .inl rfl
  | chain k h => exact .inl rfl
  | leave p => exact .inl rfl
  | finish h nh =>
    simp only [handle, onFinish]
    split
    · exact .inl rfl
    · rename_i i hf
      have hmem := List.mem_of_find?_eq_some hf
      have hp := List.find?_some hf
      simp only [Bool.and_eq_true, beq_iff_eq] at hp
      have e1 : ∀ t, (forgetBlock v (forgetHash t h) h).dropped = t.dropped := fun t => by
        have := (forgetBlock_env v (forgetHash t h) h).trans (forgetHash_env t h)
        exact congrArg (·.1) this
      rw [e1, goroutine_dropped]
      cases hk : s.known.contains i.blk.parent <;> cases hvk : i.blk.vOk
      · exact .inl (by simp)
      · exact .inl (by simp)
      · exact .inr ⟨h, nh, i, rfl, hmem, hp.2, hp.1, hvk, hk, by simp⟩
      · exact .inl (by simp)

example : (step code (run code {} [.chain [0] 0, .enqueue 3 ⟨9, 1, 0, false, true⟩]) (.finish 9 0)).dropped = [3] := by decide

/-! ### C16 at fetcher level -/

/-- insertChain is handed an entry only by the end of its import goroutine: the entry is in f.queued, popped (`st = some _`),
    its parent known, validateBlock passed. -/
theorem never_imports_unqueued (v : Variant) (s : St) (e : Ev) :
    (step v s e).handed = s.handed ∨
    ∃ h nh i, e = .finish h nh ∧ i ∈ s.queued ∧ i.st.isSome = true ∧ i.blk.hash = h ∧ i.blk.vOk = true ∧
      s.known.contains i.blk.parent = true ∧ (step v s e).handed = i :: s.handed := by
  have hh : (step v s e).handed = (handle v s e).handed := congrArg (·.2.1) (head_env v (handle v s e))
  rw [hh]
  cases e with
  | notify p h t => exact .inl (congrArg (·.2.1) (onNotify_env s p h t))
  | enqueue p b => exact .inl (congrArg (·.2.1) (enqueue_env v s p b))
  | timer k => exact .inl (congrArg (·.2.1) (onTimer_env v s k))
  | deliver bs => exact .inl (congrArg (·.2.1) (onDeliver_env v s bs))
  | tick d => exact .inl rfl
  | chain k h => exact .inl rfl
  | leave p => exact .inl rfl
  | finish h nh =>
    simp only [handle, onFinish]
    split
    · exact .inl rfl
    · rename_i i hf
      have hmem := List.mem_of_find?_eq_some hf
      have hp := List.find?_some hf
      simp only [Bool.and_eq_true, beq_iff_eq] at hp
      have e1 : ∀ t, (forgetBlock v (forgetHash t h) h).handed = t.handed := fun t => by
        have := (forgetBlock_env v (forgetHash t h) h).trans (forgetHash_env t h)
        exact congrArg (·.2.1) this
      rw [e1, goroutine_handed]
      cases hk : s.known.contains i.blk.parent <;> cases hvk : i.blk.vOk
      · exact .inl (by simp)
      · exact .inl (by simp)
      · exact .inl (by simp)
      · exact .inr ⟨h, nh, i, rfl, hmem, hp.2, hp.1, hvk, hk, by simp⟩

/-- …and a popped entry was popped by an import pass that read a chain height `ph` with block height ≤ ph + 1 (next height or
    below: the code imports uncles down to maxUncleDist) — in every reachable state, so for every entry handed to insertChain. -/
theorem import_in_height_order {v : Variant} {s : St} (hr : Reach v s) (i : Inj) (hi : i ∈ s.queued) (ph : Nat)
    (hst : i.st = some ph) : i.blk.height ≤ ph + 1 ∧ ph ≤ i.blk.height + FeMaxUncleDist :=
  (reach_inv hr).pop i hi ph hst

/-- once, and nothing that failed is kept: when the goroutine of the entry of hash `h` ends — parent unknown, validation
    failed, import failed or import succeeded — no entry of that hash is left in f.queued (nor, `forgetHash`, in f.announced). -/
theorem failed_import_not_kept {v : Variant} {s : St} (hr : Reach v s) (h nh : Nat) (i : Inj)
    (hf : s.queued.find? (fun i => i.blk.hash == h && i.st.isSome) = some i) :
    (∀ j ∈ (handle v s (.finish h nh)).queued, j.blk.hash ≠ h) ∧
    (∀ a ∈ (handle v s (.finish h nh)).announced, a.hash ≠ h) := by
  have hn := (reach_inv hr).nodup
  have hp := List.find?_some hf
  have hmem := List.mem_of_find?_eq_some hf
  simp only [Bool.and_eq_true, beq_iff_eq] at hp
  simp only [handle, onFinish, hf]
  generalize hs1 : goroutine s i nh = s1
  have hq : s1.queued = s.queued := by subst hs1; exact (goroutine_fields s i nh).2.2.2.2
  have hfq : (forgetHash s1 h).queued = s.queued := by
    rw [← hq]; unfold forgetHash; simp only []; split <;> rfl
  have hfa : ∀ a ∈ (forgetHash s1 h).announced, a.hash ≠ h := by
    intro a ha
    have : a ∈ s1.announced.filter (fun a => !(a.hash == h)) := by
      revert ha; unfold forgetHash; simp only []; split <;> exact id
    simpa using (List.mem_filter.mp this).2
  constructor
  · intro j hj
    unfold forgetBlock at hj
    rw [hfq] at hj
    have hfind : ∃ x, s.queued.find? (fun i => i.blk.hash == h) = some x := by
      cases hx : s.queued.find? (fun i => i.blk.hash == h) with
      | some x => exact ⟨x, rfl⟩
      | none =>
        have := List.find?_eq_none.mp hx i hmem
        simp [hp.1] at this
    obtain ⟨x, hx⟩ := hfind
    rw [hx] at hj
    exact nodup_eraseP_no_key h _ hn j hj
  · intro a ha
    have : (forgetBlock v (forgetHash s1 h) h).announced = (forgetHash s1 h).announced := by
      unfold forgetBlock; split <;> rfl
    rw [this] at ha
    exact hfa a ha

/-- an import that fails validation: the block is gone from the fetcher and nothing was handed to insertChain -/
example :
    let s := step code (run code {} [.chain [0] 0, .enqueue 3 ⟨9, 1, 0, false, true⟩]) (.finish 9 0)
    s.queued = [] ∧ s.handed = [] ∧ s.queues 3 = 0 := by decide

/-! ### liveness of the loop -/

/-- every event is handled in every reachable state (`step` is a total function: no map or slice operation of the model can
    fail) and leads to a reachable state in which the invariant holds again -/
theorem loop_total {v : Variant} {s : St} (hr : Reach v s) (e : Ev) : Reach v (step v s e) ∧ Inv v (step v s e) :=
  ⟨.step e hr, step_inv e (reach_inv hr)⟩

/-- the value of a key of `f.announced` is a non-empty slice: `announces[0]` and `rand.Intn(len(announces))` of the timer case
    and of `reschedule` cannot panic -/
theorem group_nonempty (s : St) (h : Nat) (hk : h ∈ s.announced.map (·.hash)) :
    s.announced.filter (fun a => a.hash == h) ≠ [] := by
  simp only [List.mem_map] at hk
  obtain ⟨a, ha, rfl⟩ := hk
  intro he
  have : a ∈ s.announced.filter (fun b => b.hash == a.hash) := List.mem_filter.mpr ⟨ha, by simp⟩
  rw [he] at this
  simp at this

/-- the timer case, for a group that is due: none of its announcements stays in f.announced -/
theorem due_group_leaves_announced (v : Variant) (pick : Nat) (s : St) (h : Nat) (a0 : Ann) (rest : List Ann)
    (hg : s.announced.filter (fun a => a.hash == h) = a0 :: rest)
    (hdue : s.now - a0.time > (FeArriveTimeoutMs : Int) - (FeGatherSlackMs : Int)) :
    ∀ a ∈ (timerOne v pick s h).announced, a.hash ≠ h := by
  intro a ha
  have : a ∈ s.announced.filter (fun a => !(a.hash == h)) := by
    revert ha
    unfold timerOne
    rw [hg]
    simp only [hdue, if_true]
    unfold forgetHash
    simp only []
    split <;> split <;> exact id
  simpa using (List.mem_filter.mp this).2

/-- `forgetHash` leaves no pending fetch of that hash when the keys of f.fetching are distinct; the head of the loop calls it
    for every pending fetch older than fetchTimeout (`expire`) -/
theorem old_fetch_forgotten (s : St) (h : Nat) (hn : (s.fetching.map (·.hash)).Nodup) :
    ∀ a ∈ (forgetHash s h).fetching, a.hash ≠ h := by
  intro a ha
  unfold forgetHash at ha
  simp only [] at ha
  split at ha
  · exact nodup_eraseP_no_hash h _ hn a ha
  · rename_i hnone
    have := List.find?_eq_none.mp hnone a ha
    simpa using this

/-- PARTIAL (composition over the whole timer case and over several groups is shown on an instance, not for every state):
    an announced hash nobody delivers is requested once it is arriveTimeout − gatherSlack old and forgotten at the first
    wake-up after fetchTimeout — here: announced at 0, timer at 401 ms, any event at 5001 ms; nothing is left (code as it is,
    and the tree before the repair of FGD1 alike: the defect was in the counter, not in the lists). -/
theorem announcement_expires_partial :
    (∀ v ∈ [code, beforeFGD1],
      let s1 := run v {} [.notify 1 7 0, .notify 2 7 3, .notify 2 8 10, .tick 401, .timer 1]
      let s2 := step v s1 (.tick 5001)
      s1.announced.map (·.hash) = [8] ∧ s1.fetching.map (·.hash) = [7] ∧ s2.fetching = [] ∧ s2.announced.map (·.hash) = [8]) ∧
    FeArriveTimeoutMs - FeGatherSlackMs + 1 = 401 ∧ FeFetchTimeoutMs + 1 = 5001 := by decide

/-! ### the two hand mutations as variants -/

set_option maxRecDepth 100000 in
/-- forgetBlock without the decrement: an honest peer whose blockLimit blocks were all imported is refused its next block —
    for ever (the counter only grows). -/
theorem counter_leak_in_variant :
    let good (n : Nat) : Ev := .enqueue 1 ⟨1000 + n, n, 1000 + n - 1, true, true⟩
    let evs := (List.range FeBlockLimit).flatMap (fun n => [good (n + 1), Ev.finish (1000 + n + 1) (n + 1)])
    let s := run noDec { known := [1000] } evs
    s.height = FeBlockLimit ∧ s.queued = [] ∧
    (step noDec s (good (FeBlockLimit + 1))).queued = [] ∧ (step repaired (run repaired { known := [1000] } evs) (good (FeBlockLimit + 1))).queued.length = 1 := by
  decide

/-- enqueue without the distance test: a block a million heights ahead is stored (it can never be imported, only expire
    with the peer's allowance) -/
theorem far_future_block_queued_in_variant :
    (run noDist {} [.enqueue 1 ⟨5, 1000000, 4, true, true⟩]).queued.length = 1 ∧
    (run code {} [.enqueue 1 ⟨5, 1000000, 4, true, true⟩]).queued.length = 0 ∧
    (run code {} [.enqueue 1 ⟨5, FeMaxQueueDist, 4, true, true⟩]).queued.length = 1 ∧
    (run code {} [.enqueue 1 ⟨5, FeMaxQueueDist + 1, 4, true, true⟩]).queued.length = 0 := by decide

/-! ### known sets of a peer (protocol/peer.go) -/

/-- `MarkBlock` / `MarkTransaction` are `lru.Cache.Add` on caches built with `lru.New(maxKnown…)` (fact `limits_in_code`):
    a known set never holds more than its size, whatever a peer makes the node mark -/
theorem known_set_bounded (cap : Nat) (l : List Nat) (h : Nat) (hl : l.length ≤ cap) : (lruAdd cap l h).length ≤ cap := by
  unfold lruAdd
  split
  · rename_i hc
    have hm : h ∈ l := by simpa using hc
    simp only [List.length_cons, List.length_erase_of_mem hm]
    have : 0 < l.length := List.length_pos_of_mem hm
    omega
  · simp only [List.length_take, List.length_cons]
    omega

end ZV.C15Fetcher
