import ZenonVerif.Lemmas.Proto
/-
C15 — untrusted peers cannot crash, stall or bloat the node: the logic part (request arithmetic, reply caps,
size gate, dispatch) of protocol/handler.go. Property theorems only.

The model follows the code as it is. Two clauses of the property used to be false of the code (F7a: a
`GetBlockHashesMsg` naming an unknown hash panicked; F7b: `GetBlockHashesFromNumberMsg` with
`Number + Amount ≤ 1` was answered with the whole chain) and were stated as `…_partial` theorems next to
negative witnesses. Both defects are repaired (d85e958, 99f2642); the theorems below are the full-strength
statements, and the former counterexamples are now positive theorems. The stream `p2p` sends the same
requests to the real handler on every run (monitor "reply ≤ 512 hashes, no panic").
-/
namespace ZV.C15
open ZV ZV.Proto

/-! ### T1 `reply_caps` -/

/-- `GetBlockHashesMsg`: for every chain height, every (known or unknown) hash and every amount, a reply
    carries at most `MaxHashFetch` hashes. -/
theorem reply_caps_getHashes (H : Nat) (hash : Option Nat) (amount : Nat) (l : List Nat)
    (h : onGetHashes H hash amount = .hashes l) : l.length ≤ Gen.MaxHashFetch := by
  unfold onGetHashes at h
  split at h
  · next l' hl =>
    cases h
    exact Nat.le_trans (hashesFromHash_length_le H hash _ _ hl) (capHash_le amount)
  · cases h
  · cases h

/-- `GetBlocksMsg`: for every list of requested hashes (held or not, with or without a malformed tail) a
    reply carries at most `MaxBlockFetch` momentums. -/
theorem reply_caps_getBlocks (H : Nat) (hs : List (Option Nat)) (bad : Bool) (l : List Nat)
    (h : onGetBlocks H hs bad = .blocks l) : l.length ≤ Gen.MaxBlockFetch := by
  unfold onGetBlocks at h
  simp only at h
  split at h
  · cases h
  · cases h
    exact gatherBlocks_length _ [] (by decide)

/-- `GetBlockHashesFromNumberMsg`: for EVERY chain height, every number and every amount — including the
    requests with `Number + Amount ≤ 1` and every combination in which `Number + Amount − 1` or
    `last.Height − Number + 1` wraps around — a reply carries at most `MaxHashFetch` hashes. No premise: the
    amount handed to `GetBlockHashesFromHash` is the capped amount or less (`fromNumberLast_amount_le`). -/
theorem reply_caps_fromNumber (H number amount : Nat) (l : List Nat)
    (h : onGetHashesFromNumber H number amount = .hashes l) : l.length ≤ Gen.MaxHashFetch := by
  unfold onGetHashesFromNumber at h
  split at h
  · cases h
  · next p hp =>
    have hp2 := fromNumberLast_amount_le hp
    have hc := capHash_le amount
    split at h
    · cases h; simp
    · split at h
      · next l' hl =>
        cases h
        rw [List.length_reverse]
        have := hashesFromHash_length_le H _ _ _ hl
        omega
      · cases h
      · cases h

/-- T1 on the dispatcher: whatever the node, the code, the size and the body of a message, a reply carries at
    most `MaxHashFetch` hashes or `MaxBlockFetch` momentums. No premise. -/
theorem reply_caps (s : State) (m : Msg) : (handleMsg s m).2.withinCaps := by
  unfold handleMsg
  split
  · trivial
  · generalize kindOf m.code = k
    generalize m.body = b
    cases k <;> cases b <;> simp only [handleKind] <;> try trivial
    · split <;> trivial
    · next hash a =>
      cases hr : onGetHashes s.H hash a <;> try trivial
      · next l => exact reply_caps_getHashes _ _ _ _ hr
      · next l => exact absurd hr (onGetHashes_ne_blocks _ _ _ _)
    · next hs bad =>
      cases hr : onGetBlocks s.H hs bad <;> try trivial
      · next l => exact absurd hr (onGetBlocks_ne_hashes _ _ _ _)
      · next l => exact reply_caps_getBlocks _ _ _ _ hr
    · next n a =>
      cases hr : onGetHashesFromNumber s.H n a <;> try trivial
      · next l => exact reply_caps_fromNumber _ _ _ _ hr
      · next l => exact absurd hr (onGetHashesFromNumber_ne_blocks _ _ _ _)

/-- the requests that used to be answered with the whole chain (F7b, repaired in 99f2642), on a chain of 600
    momentums: (0,0) and (1,0) ask for nothing and get nothing; (0,1) gets one hash, the frontier's. -/
theorem fromNumber_former_counterexamples :
    onGetHashesFromNumber 600 0 0 = .hashes [] ∧ onGetHashesFromNumber 600 1 0 = .hashes [] ∧
    onGetHashesFromNumber 600 0 1 = .hashes [600] ∧ Gen.MaxHashFetch < 600 := by decide

/-- …and on every chain: an amount of 0 is answered with no hash at all, whatever the number. -/
theorem fromNumber_amount_zero (H number : Nat) (h1 : 1 ≤ H) (hH : H + 1 < two64) :
    onGetHashesFromNumber H number 0 = .hashes [] := by
  have hc : capHash 0 = 0 := by decide
  obtain ⟨p, hp, hp1, hp2, hp3⟩ := fromNumberLast_spec H number (capHash 0) h1
  rw [hc] at hp hp3
  have h0 : p.2 = 0 := by omega
  unfold onGetHashesFromNumber
  rw [hc, hp]
  simp only
  split
  · rfl
  · rw [h0, hashesFromHash_some hp1 hp2 hH (Nat.zero_le _)]
    have : ¬ (p.1 + 1 ≤ 0) := by omega
    simp [this]

/-- (0, 1) — "one hash from number 0", a height no momentum has — is answered with exactly one hash. -/
theorem fromNumber_zero_one (H : Nat) (h1 : 1 ≤ H) (hH : H + 1 < two64) :
    onGetHashesFromNumber H 0 1 = .hashes [H] := by
  have hm : (1 : Nat) ≤ makesliceMax := by decide
  have hc : capHash 1 = 1 := by decide
  have hk : byHeight H (sub64 (u64 (0 + 1)) 1) = none := by
    have : sub64 (u64 (0 + 1)) 1 = 0 := by decide
    rw [this]; unfold byHeight; simp
  have hs : sub64 H 0 = H := by rw [sub64_of_le (Nat.zero_le _)]; rfl
  have hu : u64 (H + 1) = H + 1 := u64_of_lt hH
  have hlt : ¬ (H + 1 < 1) := by omega
  unfold onGetHashesFromNumber
  simp only [hc, fromNumberLast, hk, currentBlock_some h1, hs, hu, hlt, if_false, Nat.not_lt_zero]
  rw [hashesFromHash_some h1 (Nat.le_refl _) hH hm]
  have : ¬ (H + 1 ≤ 1) := by omega
  simp only [this, if_false]
  have e1 : H + 1 - 1 = H := by omega
  have e2 : H + 1 - H = 1 := by omega
  rw [e1, e2]
  rfl

/-! ### T2 `handler_total` -/

/-- no message makes a handler panic: every code, every size, every body — every amount and number, every
    hash, held or not. Premises on the NODE only: it holds its genesis momentum (`chain.Init` guarantees it;
    without one `CurrentBlock()` is nil) and its height is below 2^64 − 1 (at height 2^64 − 1 — reached after
    5.8·10^12 years of one momentum per 10 s — `height + 1` wraps around to 0 in `GetMomentumsByHeight` and
    `make([]*Momentum, 0, 0 − 1)` panics). Both are necessary: `handler_total_needs_genesis`,
    `handler_total_needs_room`. -/
theorem handler_total (s : State) (m : Msg) (h1 : 1 ≤ s.H) (hH : s.H + 1 < two64) :
    (handleMsg s m).2 ≠ .panic := by
  have hcap : ∀ a, capHash a ≤ makesliceMax := by
    intro a
    have := capHash_le a
    have : Gen.MaxHashFetch ≤ makesliceMax := by decide
    omega
  unfold handleMsg
  split
  · simp
  · generalize kindOf m.code = k
    generalize m.body = b
    cases k <;> cases b <;> simp only [handleKind] <;> try simp
    · split <;> simp
    · next hash a =>
      unfold onGetHashes
      cases hb : byHash s.H hash with
      | none =>
        have : hashesFromHash s.H hash (capHash a) = .ok [] := by
          unfold hashesFromHash; rw [hb]
        rw [this]; simp
      | some h =>
        -- the hash is the one of our momentum at height h
        have hh : hash = some h ∧ 1 ≤ h ∧ h ≤ s.H := by
          unfold byHash at hb
          cases hash with
          | none => cases hb
          | some h' =>
            have := byHeight_eq_some (H := s.H) (h := h') (l := h) (by simpa using hb)
            exact ⟨by rw [this.1], by omega, by omega⟩
        rw [hh.1, hashesFromHash_some hh.2.1 hh.2.2 hH (hcap a)]
        simp
    · next hs bad =>
      simp only [onGetBlocks]
      split <;> simp
    · next n a =>
      unfold onGetHashesFromNumber
      obtain ⟨p, hp, hp1, hp2, hp3⟩ := fromNumberLast_spec s.H n (capHash a) h1
      rw [hp]
      simp only
      split
      · simp
      · rw [hashesFromHash_some hp1 hp2 hH (Nat.le_trans hp3 (hcap a))]
        simp

/-- the request that used to kill the node (F7a, repaired in d85e958): a `GetBlockHashesMsg` naming a hash
    the node does not hold is answered with an empty `BlockHashesMsg` — on every node, for every amount —
    and the session goes on. -/
theorem unknown_hash_empty_reply (s : State) (size amount : Nat) (hs : size ≤ Gen.ProtocolMaxMsgSize) :
    handleMsg s ⟨Gen.GetBlockHashesMsg, size, .getHashes none amount⟩ = (s, .hashes []) := by
  unfold handleMsg
  have : ¬ (size > Gen.ProtocolMaxMsgSize) := by omega
  simp only [this, if_false]
  have hk : kindOf Gen.GetBlockHashesMsg = .getHashes := by decide
  rw [hk]
  rfl

/-- the first premise of `handler_total` cannot be dropped: a chain without any momentum (not a state a node
    can be in) makes `last.Height` dereference the nil `CurrentBlock()`. -/
theorem handler_total_needs_genesis :
    (handleMsg { H := 0 } ⟨Gen.GetBlockHashesFromNumberMsg, 3, .getHashesFromNumber 0 0⟩).2 = .panic := by decide

/-- the second premise cannot be dropped either: on a chain of 2^64 − 1 momentums a request for the
    frontier's own hash panics (`height + 1` wraps around to 0: `make` with capacity 2^64 − 1). -/
theorem handler_total_needs_room :
    (handleMsg { H := two64 - 1 } ⟨Gen.GetBlockHashesMsg, 35, .getHashes (some (two64 - 1)) 1⟩).2 = .panic := by
  decide

/-! ### T3 `size_gate` -/

/-- a message whose size exceeds `ProtocolMaxMsgSize` is refused with `ErrMsgTooLarge` whatever its code
    and whatever its payload decodes to (the verdict does not depend on the body: nothing is decoded),
    and the node state is untouched. -/
theorem size_gate (s : State) (code size : Nat) (body : Body) (h : size > Gen.ProtocolMaxMsgSize) :
    handleMsg s ⟨code, size, body⟩ = (s, .err .msgTooLarge) := by
  unfold handleMsg; simp [h]

/-- a code outside the protocol's nine yields `ErrInvalidMsgCode` and no state change. -/
theorem unknown_code (s : State) (code size : Nat) (body : Body) (hc : Gen.ProtocolLength ≤ code)
    (h : size ≤ Gen.ProtocolMaxMsgSize) :
    handleMsg s ⟨code, size, body⟩ = (s, .err .invalidMsgCode) := by
  have hl : Gen.ProtocolLength = 9 := rfl
  have e0 : Gen.StatusMsg = 0 := rfl
  have e1 : Gen.NewBlockHashesMsg = 1 := rfl
  have e2 : Gen.TxMsg = 2 := rfl
  have e3 : Gen.GetBlockHashesMsg = 3 := rfl
  have e4 : Gen.BlockHashesMsg = 4 := rfl
  have e5 : Gen.GetBlocksMsg = 5 := rfl
  have e6 : Gen.BlocksMsg = 6 := rfl
  have e7 : Gen.NewBlockMsg = 7 := rfl
  have e8 : Gen.GetBlockHashesFromNumberMsg = 8 := rfl
  unfold handleMsg
  have hs : ¬ (size > Gen.ProtocolMaxMsgSize) := by omega
  simp only [hs, if_false]
  have hk : kindOf code = .unknown := by
    unfold kindOf
    rw [if_neg (by omega), if_neg (by omega), if_neg (by omega), if_neg (by omega), if_neg (by omega),
        if_neg (by omega), if_neg (by omega), if_neg (by omega), if_neg (by omega)]
  rw [hk]
  rfl

/-- every error outcome (and every panic) leaves the node state as it was; the three request handlers
    never change it. -/
theorem error_no_state_change (s : State) (m : Msg) :
    (∀ e, (handleMsg s m).2 = .err e → (handleMsg s m).1 = s) ∧
    ((kindOf m.code = .getHashes ∨ kindOf m.code = .getHashesFromNumber ∨ kindOf m.code = .getBlocks)
      → (handleMsg s m).1 = s) := by
  unfold handleMsg
  split
  · simp
  · generalize kindOf m.code = k
    generalize m.body = b
    constructor
    · intro e
      cases k <;> cases b <;> simp [handleKind]
      split <;> simp
    · intro hc
      cases k <;> cases b <;> simp [handleKind] at hc ⊢

/-- the nine codes are pairwise distinct and are exactly 0..ProtocolLength−1 (generated facts). -/
theorem codes_distinct :
    [Gen.StatusMsg, Gen.NewBlockHashesMsg, Gen.TxMsg, Gen.GetBlockHashesMsg, Gen.BlockHashesMsg,
     Gen.GetBlocksMsg, Gen.BlocksMsg, Gen.NewBlockMsg, Gen.GetBlockHashesFromNumberMsg]
      = List.range Gen.ProtocolLength := by decide

/-- generated facts about the shape of `handleMsg`: the size test is a top-level `if … return` placed
    before the dispatching switch (and before `defer msg.Discard()`), both hash handlers carry the cap
    statement, and the block loop leaves at `>= MaxBlockFetch`. -/
theorem size_gate_in_code :
    Gen.HandleMsgSizeGateBeforeSwitch = true ∧
    Gen.HandleMsgTopLevel = ["msg, err := p.rw.ReadMsg()", "if err != nil", "if msg.Size > ProtocolMaxMsgSize",
      "defer msg.Discard()", "switch msg.Code", "return"] ∧
    Gen.HandleMsgHashCapSites = 2 ∧
    Gen.HandleMsgBlockCapCond = "len(blocks) >= downloader.MaxBlockFetch" := by decide

/-- generated facts about the two repaired places, as they stand in the working tree: every statement of
    `handleMsg` that writes `request.Amount` is one of the two caps or the recomputation guarded by
    `available < request.Amount` (so the amount is never enlarged after the cap — `fromNumberLast`), and
    `GetMomentumsByHash` returns `nil, nil` for a nil momentum before it reads `momentum.Height`
    (`hashesFromHash`, first case). -/
theorem repaired_shape_in_code :
    Gen.HandleMsgAmountWrites =
      ["request.Amount > uint64(downloader.MaxHashFetch) => request.Amount = uint64(downloader.MaxHashFetch)",
       "request.Amount > uint64(downloader.MaxHashFetch) => request.Amount = uint64(downloader.MaxHashFetch)",
       "available := last.Height - request.Number + 1; available < request.Amount => request.Amount = available"] ∧
    Gen.GetMomentumsByHashStmts =
      ["momentum, err := ms.GetMomentumByHash(blockHash)", "if err != nil { return nil, err }",
       "if momentum == nil { return nil, nil }",
       "return ms.GetMomentumsByHeight(momentum.Height, higher, count)"] := by decide

/-- the limits the statement names: 10 MiB per message, 512 hashes and 128 momentums per reply. -/
theorem stated_limits :
    Gen.ProtocolMaxMsgSize = 10 * 1024 * 1024 ∧ Gen.MaxHashFetch = 512 ∧ Gen.MaxBlockFetch = 128 := by decide

/-- handshake: the first message of a session must be a Status message within the size limit that decodes
    and matches genesis, network and version — anything else ends the session with an error. -/
theorem handshake_gate (code size : Nat) (dec g n v : Bool) :
    handshake code size dec g n v = none ↔
      (code = Gen.StatusMsg ∧ size ≤ Gen.ProtocolMaxMsgSize ∧ dec = true ∧ g = true ∧ n = true ∧ v = true) := by
  unfold handshake
  constructor
  · intro h
    split at h; · cases h
    split at h; · cases h
    split at h; · cases h
    split at h; · cases h
    split at h; · cases h
    split at h; · cases h
    simp_all <;> omega
  · rintro ⟨h1, h2, h3, h4, h5, h6⟩
    subst h3 h4 h5 h6
    have : ¬ size > Gen.ProtocolMaxMsgSize := by omega
    simp [h1, this]

/-! ### hypotheses are satisfiable -/

/-- "only the offending peer is dropped": when the import of a downloaded batch fails, `Downloader.process` drops
    `blocks[index].OriginPeer` — the peer that delivered the element at the index `InsertChain` returned — where `raw[i]` is
    `blocks[i].RawBlock` (the batch is handed over in order), and every index `chainBridge.InsertChain` returns out of its insert
    loop is `index + start`: the position in the batch as it was HANDED OVER, not in what is left of it after the momentums the
    node already holds were removed from its front (AST facts of the working tree). The stream `p2p-net` assembles such batches
    from the deliveries of two peers (a forged momentum from one, everything else — and a known prefix of 1 or K momentums —
    from an honest one) and checks on the wire that exactly the deliverer of the forged momentum is disconnected. -/
theorem import_failure_blames_deliverer :
    Gen.DownloaderProcessDropArgs = ["blocks[index].OriginPeer"] ∧
    Gen.DownloaderProcessInsert = ["for _, block := range blocks[:max] { raw = append(raw, block.RawBlock) }",
      "index, err := d.insertChain(raw)"] ∧
    Gen.InsertChainLoopReturnIndex = ["index + start", "index + start", "index + start", "index + start"] := by decide

/-- a capped, ordinary request: 5 hashes ending at height 7 on a chain of 10. -/
example : onGetHashes 10 (some 7) 5 = .hashes [3, 4, 5, 6, 7] := by decide
/-- from-number with wrap-free arithmetic, reply is frontier-first. -/
example : onGetHashesFromNumber 10 4 3 = .hashes [6, 5, 4] := by decide
/-- beyond the frontier: truncated to what exists. -/
example : onGetHashesFromNumber 10 9 600 = .hashes [10, 9] := by decide
/-- the premises of `handler_total` hold for an ordinary node -/
example : 1 ≤ (State.mk 10 0 0).H ∧ (State.mk 10 0 0).H + 1 < two64 := by decide
/-- an unknown hash, and a hash "at a height" the node does not hold: empty replies -/
example : onGetHashes 10 none 5 = .hashes [] ∧ onGetHashes 10 (some 11) 5 = .hashes [] := by decide
/-- number above the frontier with a wrap-around in `last.Height − Number + 1`: nothing -/
example : onGetHashesFromNumber 10 (two64 - 1) 2 = .hashes [] := by decide
set_option maxRecDepth 16384 in
/-- number 0 with a large amount: heights 1…511, frontier first, never more than the cap -/
example : (onGetHashesFromNumber 600 0 (two64 - 1)).count = 511 := by decide
/-- unknown hashes are skipped by GetBlocks, known ones returned -/
example : onGetBlocks 10 [some 3, none, some 11, some 10] false = .blocks [3, 10] := by decide

end ZV.C15
