import ZenonVerif.Lemmas.Proto
/-
C15 — untrusted peers cannot crash, stall or bloat the node: the logic part (request arithmetic, reply caps,
size gate, dispatch) of protocol/handler.go. Property theorems only.

The model follows the code as it is. Two clauses of the property are FALSE of the code today and are
therefore stated with the premises that exclude the failing inputs (`…_partial`) next to kernel-checked
negative witnesses; the stream `p2p` finds the same inputs on the real handler (monitor "reply ≤ 512
hashes, no panic").
-/
namespace ZV.C15
open ZV ZV.Proto

/-! ### T1 `reply_caps` -/

/-- `GetBlockHashesMsg`: for every chain height, every (known or unknown) hash and every amount, a reply
    carries at most `MaxHashFetch` hashes. -/
theorem reply_caps_getHashes (H : Nat) (hash : Option Nat) (amount : Nat) (l : List Nat)
    (h : onGetHashes H hash amount = .hashes l) : l.length ≤ Gen.MaxHashFetch := by
  unfold onGetHashes at h
  split at h
  · next l' hl =>
    cases h
    exact Nat.le_trans (hashesFromHash_length_le H hash _ _ hl) (capHash_le amount)
  · cases h
  · cases h

/-- `GetBlocksMsg`: for every list of requested hashes (held or not, with or without a malformed tail) a
    reply carries at most `MaxBlockFetch` momentums. -/
theorem reply_caps_getBlocks (H : Nat) (hs : List (Option Nat)) (bad : Bool) (l : List Nat)
    (h : onGetBlocks H hs bad = .blocks l) : l.length ≤ Gen.MaxBlockFetch := by
  unfold onGetBlocks at h
  simp only at h
  split at h
  · cases h
  · cases h
    exact gatherBlocks_length _ [] (by decide)

/-- `GetBlockHashesFromNumberMsg`, PARTIAL: the cap holds for every chain below 2^64 − 512 and every
    request except the three with `Number + Amount ≤ 1`. What is missing: for (0,0), (1,0) and (0,1)
    the handler asks `GetBlockByNumber(Number+Amount−1)` for height 2^64−1 or 0, gets nil, and then
    recomputes `Amount` from the frontier *after* the cap (see `reply_caps_fromNumber_false`). -/
theorem reply_caps_fromNumber_partial (H number amount : Nat) (l : List Nat)
    (hH : H + Gen.MaxHashFetch < two64) (h2 : 2 ≤ number + amount)
    (h : onGetHashesFromNumber H number amount = .hashes l) : l.length ≤ Gen.MaxHashFetch := by
  unfold onGetHashesFromNumber at h
  simp only at h
  have hc := capHash_le amount
  have hc2 : 2 ≤ number + capHash amount := by
    unfold capHash; split
    · have : Gen.MaxHashFetch = 512 := rfl
      omega
    · exact h2
  cases hb : byHeight H (sub64 (u64 (number + capHash amount)) 1) with
  | some lh =>
    simp only [fromNumberLast, hb] at h
    split at h
    · cases h; simp
    · split at h
      · next l' hl =>
        cases h
        rw [List.length_reverse]
        exact Nat.le_trans (hashesFromHash_length_le H _ _ _ hl) hc
      · cases h
      · cases h
  | none =>
    simp only [fromNumberLast, hb] at h
    split at h
    · cases h; simp
    · next hlt =>
      have hnH : number ≤ H := by omega
      split at h
      · next l' hl =>
        cases h
        rw [List.length_reverse]
        have hlen := hashesFromHash_length_le H _ _ _ hl
        have hs : sub64 H number = H - number := sub64_of_le hnH
        have hu : u64 (H - number + 1) = H - number + 1 := u64_of_lt (by omega)
        rw [hs, hu] at hlen
        -- the height asked for is number + capHash amount - 1 ≥ 1, and it is not held, so it is above H
        have hsum : u64 (number + capHash amount) = number + capHash amount := u64_of_lt (by omega)
        rw [hsum, sub64_of_le (by omega)] at hb
        rcases byHeight_eq_none hb with h0 | hgt
        · omega
        · omega
      · cases h
      · cases h

set_option maxRecDepth 16384 in
/-- the negative witnesses for T1: on a chain of 600 momentums the three excluded requests are answered
    with all 600 hashes. -/
theorem reply_caps_fromNumber_false :
    (onGetHashesFromNumber 600 0 0).count = 600 ∧ (onGetHashesFromNumber 600 1 0).count = 600 ∧
    (onGetHashesFromNumber 600 0 1).count = 600 ∧ Gen.MaxHashFetch < 600 := by decide

/-- …and exactly what they return on every chain: the whole chain, frontier first. -/
theorem fromNumber_zero_zero_whole_chain (H : Nat) (h1 : 1 ≤ H) (hH : H ≤ makesliceMax) :
    onGetHashesFromNumber H 0 0 = .hashes (List.range' 1 H).reverse := by
  have hm : makesliceMax + 1 < two64 := by unfold makesliceMax two64; omega
  unfold onGetHashesFromNumber
  have hc : capHash 0 = 0 := by decide
  have hk : byHeight H (sub64 (u64 (0 + 0)) 1) = none := by
    have : sub64 (u64 (0 + 0)) 1 = two64 - 1 := by decide
    rw [this]; unfold byHeight
    have : ¬ (1 ≤ two64 - 1 ∧ two64 - 1 ≤ H) := by omega
    rw [if_neg this]
  simp only [hc, fromNumberLast, hk]
  have hs : sub64 H 0 = H := by rw [sub64_of_le (Nat.zero_le _)]; rfl
  have hu : u64 (H + 1) = H + 1 := u64_of_lt (by omega)
  simp only [hs, hu, Nat.not_lt_zero, if_false]
  rw [hashesFromHash_some h1 (Nat.le_refl _) hH (by omega)]
  simp

/-- T1 on the dispatcher: whatever the code, size and body of a message, a reply carries at most
    `MaxHashFetch` hashes or `MaxBlockFetch` momentums — PARTIAL: under the premise of
    `reply_caps_fromNumber_partial` for the from-number request. -/
theorem reply_caps_partial (s : State) (m : Msg)
    (hH : s.H + Gen.MaxHashFetch < two64)
    (hF : ∀ n a, m.body = .getHashesFromNumber n a → 2 ≤ n + a) :
    (handleMsg s m).2.withinCaps := by
  unfold handleMsg
  split
  · trivial
  · generalize kindOf m.code = k
    revert hF
    generalize m.body = b
    intro hF
    cases k <;> cases b <;> simp only [handleKind] <;> try trivial
    · split <;> trivial
    · next hash a =>
      cases hr : onGetHashes s.H hash a <;> try trivial
      · next l => exact reply_caps_getHashes _ _ _ _ hr
      · next l => exact absurd hr (onGetHashes_ne_blocks _ _ _ _)
    · next hs bad =>
      cases hr : onGetBlocks s.H hs bad <;> try trivial
      · next l => exact absurd hr (onGetBlocks_ne_hashes _ _ _ _)
      · next l => exact reply_caps_getBlocks _ _ _ _ hr
    · next n a =>
      cases hr : onGetHashesFromNumber s.H n a <;> try trivial
      · next l => exact reply_caps_fromNumber_partial _ _ _ _ hH (hF n a rfl) hr
      · next l => exact absurd hr (onGetHashesFromNumber_ne_blocks _ _ _ _)

/-! ### T2 `handler_total` -/

/-- PARTIAL: no message makes a handler panic — provided a hash-based request names a hash the node
    holds. What is missing: `GetBlockHashesMsg` with an unknown hash (`handler_total_false`). Premises on
    the node: it has a genesis momentum and fewer than 2^45 momentums. -/
theorem handler_total_partial (s : State) (m : Msg) (h1 : 1 ≤ s.H) (hH : s.H ≤ makesliceMax)
    (wf : m.body.WF s.H) (hk : ∀ a, m.body ≠ .getHashes none a) :
    (handleMsg s m).2 ≠ .panic := by
  have hcap : ∀ a, capHash a < two64 := by
    intro a
    have := capHash_le a
    have : Gen.MaxHashFetch < two64 := by decide
    omega
  unfold handleMsg
  split
  · simp
  · generalize kindOf m.code = k
    revert wf hk
    generalize m.body = b
    intro wf hk
    cases k <;> cases b <;> simp only [handleKind] <;> try simp
    · split <;> simp
    · next hash a =>
      cases hash with
      | none => exact absurd rfl (hk a)
      | some h =>
        have hw : 1 ≤ h ∧ h ≤ s.H := wf h rfl
        unfold onGetHashes
        rw [hashesFromHash_some hw.1 hw.2 hH (hcap a)]
        simp
    · next hs bad =>
      simp only [onGetBlocks]
      split <;> simp
    · next n a =>
      unfold onGetHashesFromNumber
      simp only
      have hp := fromNumberLast_spec s.H n (capHash a) h1 (hcap a)
      generalize fromNumberLast s.H n (capHash a) = p at hp
      split
      · simp
      · rw [hashesFromHash_some hp.1 hp.2.1 hH hp.2.2]
        simp

/-- the negative witness for T2: a `GetBlockHashesMsg` naming a hash the node does not hold panics
    (`GetMomentumsByHash` dereferences the nil momentum) — for every node and amount. -/
theorem handler_total_false (s : State) (size amount : Nat) (hs : size ≤ Gen.ProtocolMaxMsgSize) :
    (handleMsg s ⟨Gen.GetBlockHashesMsg, size, .getHashes none amount⟩).2 = .panic := by
  unfold handleMsg
  have : ¬ (size > Gen.ProtocolMaxMsgSize) := by omega
  simp only [this, if_false]
  have hk : kindOf Gen.GetBlockHashesMsg = .getHashes := by decide
  rw [hk]
  rfl

/-! ### T3 `size_gate` -/

/-- a message whose size exceeds `ProtocolMaxMsgSize` is refused with `ErrMsgTooLarge` whatever its code
    and whatever its payload decodes to (the verdict does not depend on the body: nothing is decoded),
    and the node state is untouched. -/
theorem size_gate (s : State) (code size : Nat) (body : Body) (h : size > Gen.ProtocolMaxMsgSize) :
    handleMsg s ⟨code, size, body⟩ = (s, .err .msgTooLarge) := by
  unfold handleMsg; simp [h]

/-- a code outside the protocol's nine yields `ErrInvalidMsgCode` and no state change. -/
theorem unknown_code (s : State) (code size : Nat) (body : Body) (hc : Gen.ProtocolLength ≤ code)
    (h : size ≤ Gen.ProtocolMaxMsgSize) :
    handleMsg s ⟨code, size, body⟩ = (s, .err .invalidMsgCode) := by
  have hl : Gen.ProtocolLength = 9 := rfl
  have e0 : Gen.StatusMsg = 0 := rfl
  have e1 : Gen.NewBlockHashesMsg = 1 := rfl
  have e2 : Gen.TxMsg = 2 := rfl
  have e3 : Gen.GetBlockHashesMsg = 3 := rfl
  have e4 : Gen.BlockHashesMsg = 4 := rfl
  have e5 : Gen.GetBlocksMsg = 5 := rfl
  have e6 : Gen.BlocksMsg = 6 := rfl
  have e7 : Gen.NewBlockMsg = 7 := rfl
  have e8 : Gen.GetBlockHashesFromNumberMsg = 8 := rfl
  unfold handleMsg
  have hs : ¬ (size > Gen.ProtocolMaxMsgSize) := by omega
  simp only [hs, if_false]
  have hk : kindOf code = .unknown := by
    unfold kindOf
    rw [if_neg (by omega), if_neg (by omega), if_neg (by omega), if_neg (by omega), if_neg (by omega),
        if_neg (by omega), if_neg (by omega), if_neg (by omega), if_neg (by omega)]
  rw [hk]
  rfl

/-- every error outcome (and every panic) leaves the node state as it was; the three request handlers
    never change it. -/
theorem error_no_state_change (s : State) (m : Msg) :
    (∀ e, (handleMsg s m).2 = .err e → (handleMsg s m).1 = s) ∧
    ((kindOf m.code = .getHashes ∨ kindOf m.code = .getHashesFromNumber ∨ kindOf m.code = .getBlocks)
      → (handleMsg s m).1 = s) := by
  unfold handleMsg
  split
  · simp
  · generalize kindOf m.code = k
    generalize m.body = b
    constructor
    · intro e
      cases k <;> cases b <;> simp [handleKind]
      split <;> simp
    · intro hc
      cases k <;> cases b <;> simp [handleKind] at hc ⊢

/-- the nine codes are pairwise distinct and are exactly 0..ProtocolLength−1 (generated facts). -/
theorem codes_distinct :
    [Gen.StatusMsg, Gen.NewBlockHashesMsg, Gen.TxMsg, Gen.GetBlockHashesMsg, Gen.BlockHashesMsg,
     Gen.GetBlocksMsg, Gen.BlocksMsg, Gen.NewBlockMsg, Gen.GetBlockHashesFromNumberMsg]
      = List.range Gen.ProtocolLength := by decide

/-- generated facts about the shape of `handleMsg`: the size test is a top-level `if … return` placed
    before the dispatching switch (and before `defer msg.Discard()`), both hash handlers carry the cap
    statement, and the block loop leaves at `>= MaxBlockFetch`. -/
theorem size_gate_in_code :
    Gen.HandleMsgSizeGateBeforeSwitch = true ∧
    Gen.HandleMsgTopLevel = ["msg, err := p.rw.ReadMsg()", "if err != nil", "if msg.Size > ProtocolMaxMsgSize",
      "defer msg.Discard()", "switch msg.Code", "return"] ∧
    Gen.HandleMsgHashCapSites = 2 ∧
    Gen.HandleMsgBlockCapCond = "len(blocks) >= downloader.MaxBlockFetch" := by decide

/-- the limits the statement names: 10 MiB per message, 512 hashes and 128 momentums per reply. -/
theorem stated_limits :
    Gen.ProtocolMaxMsgSize = 10 * 1024 * 1024 ∧ Gen.MaxHashFetch = 512 ∧ Gen.MaxBlockFetch = 128 := by decide

/-- handshake: the first message of a session must be a Status message within the size limit that decodes
    and matches genesis, network and version — anything else ends the session with an error. -/
theorem handshake_gate (code size : Nat) (dec g n v : Bool) :
    handshake code size dec g n v = none ↔
      (code = Gen.StatusMsg ∧ size ≤ Gen.ProtocolMaxMsgSize ∧ dec = true ∧ g = true ∧ n = true ∧ v = true) := by
  unfold handshake
  constructor
  · intro h
    split at h; · cases h
    split at h; · cases h
    split at h; · cases h
    split at h; · cases h
    split at h; · cases h
    split at h; · cases h
    simp_all <;> omega
  · rintro ⟨h1, h2, h3, h4, h5, h6⟩
    subst h3 h4 h5 h6
    have : ¬ size > Gen.ProtocolMaxMsgSize := by omega
    simp [h1, this]

/-! ### hypotheses are satisfiable -/

/-- a capped, ordinary request: 5 hashes ending at height 7 on a chain of 10. -/
example : onGetHashes 10 (some 7) 5 = .hashes [3, 4, 5, 6, 7] := by decide
/-- from-number with wrap-free arithmetic, reply is frontier-first. -/
example : onGetHashesFromNumber 10 4 3 = .hashes [6, 5, 4] := by decide
/-- beyond the frontier: truncated to what exists. -/
example : onGetHashesFromNumber 10 9 600 = .hashes [10, 9] := by decide
/-- the premises of `handler_total_partial` hold for an ordinary request -/
example : (Body.getHashes (some 7) 5).WF 10 := by
  intro h hh; cases hh; decide
/-- unknown hashes are skipped by GetBlocks, known ones returned -/
example : onGetBlocks 10 [some 3, none, some 11, some 10] false = .blocks [3, 10] := by decide

end ZV.C15
