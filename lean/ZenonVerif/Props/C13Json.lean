import ZenonVerif.Lemmas.CodecJson
import ZenonVerif.Gen.JsonFields
/-
C13 / C18 — the JSON OBJECT form of account blocks and momentums (Model/CodecJson.lean): "every block survives the
JSON encoding unchanged with its hash preserved" (C13) and "a block returned as JSON and fed back parses to the same
block with the same hash" (C18). The model is tied to chain/nom/account_block.go {MarshalJSON, UnmarshalJSON} and
encoding/json by the `json-mar` / `json-unm` / `jsonm-mar` / `jsonm-unm` lines of the `codec` stream; the member
names, their order and their Go types are the regenerated facts `Gen.abJsonMembers` / `Gen.momJsonMembers` /
`Gen.hashHeightJsonMembers` / `Gen.accountHeaderJsonMembers`, pinned below.
NOT a theorem here: order-irrelevance for arbitrary permutations / arbitrary objects (only the reversed order of the
marshalled members, `json_member_order_irrelevant_partial`): the stream checks shuffles on the real code (model-free
monitor + model replay); the api.AccountBlock wrapper (token / confirmationDetail / pairedAccountBlock) is not
modelled beyond "these names match no tag" (`json_unknown_members_ignored` + the example next to it).
-/
namespace ZV.C13Json
open ZV ZV.Codec ZV.JsonRpc ZV.CodecJson

/-! ## the tag tables of the model are the struct tags of the tree -/

/-- names, order and Go types of the JSON members of `nom.AccountBlockMarshal` (what `json.Marshal` /
    `json.Unmarshal` see): `TotalPlasma` is `usedPlasma`, `producer` is invisible -/
theorem json_block_members_current :
    abTags.map (fun t => (t.1, abGoType t.2)) = jsonVisible Gen.abJsonMembers ∧
    abTags.map (fun t => goFieldOf t.2) = (Gen.abJsonMembers.filter (fun m => m.2.1 ≠ "")).map (·.1) := by
  decide

/-- `nom.AccountBlock` carries the same tags as `AccountBlockMarshal` (amount and nonce differ in type only) -/
theorem json_block_struct_tags_agree :
    Gen.abStructJsonMembers.map (fun m => (m.1, m.2.1)) = Gen.abJsonMembers.map (fun m => (m.1, m.2.1)) := by
  decide

/-- `nom.Momentum`: `Timestamp` has `json:"-"`, `TimestampUnix` is `timestamp` -/
theorem json_momentum_members_current :
    momTags.map (fun t => (t.1, momGoType t.2)) = jsonVisible Gen.momJsonMembers := by
  decide

/-- `types.HashHeight` and `types.AccountHeader` (the embedded `HashHeight` is flattened: address, hash, height) -/
theorem json_header_members_current :
    hhTags.map (·.1) = (jsonVisible Gen.hashHeightJsonMembers).map (·.1) ∧
    Gen.accountHeaderJsonMembers.map (fun m => (m.1, m.2.1)) = [("Address", "address"), ("HashHeight", "<embedded>")] ∧
    ahTags.map (·.1) = "address" :: hhTags.map (·.1) := by
  decide

/-- no two tags of a struct fold to the same key, so "exact name first, folded name second" never has to choose -/
theorem json_tags_fold_distinct :
    (abTags.map (fun t => foldKey t.1)).Nodup ∧ (momTags.map (fun t => foldKey t.1)).Nodup ∧
    (ahTags.map (fun t => foldKey t.1)).Nodup := by
  decide

private theorem abF :
    fieldOf abTags "version" = some .version ∧ fieldOf abTags "chainIdentifier" = some .chainIdentifier ∧
    fieldOf abTags "blockType" = some .blockType ∧ fieldOf abTags "hash" = some .hash ∧
    fieldOf abTags "previousHash" = some .previousHash ∧ fieldOf abTags "height" = some .height ∧
    fieldOf abTags "momentumAcknowledged" = some .momentumAcknowledged ∧
    fieldOf abTags "address" = some .address ∧ fieldOf abTags "toAddress" = some .toAddress ∧
    fieldOf abTags "amount" = some .amount ∧ fieldOf abTags "tokenStandard" = some .tokenStandard ∧
    fieldOf abTags "fromBlockHash" = some .fromBlockHash ∧
    fieldOf abTags "descendantBlocks" = some .descendantBlocks ∧ fieldOf abTags "data" = some .data ∧
    fieldOf abTags "fusedPlasma" = some .fusedPlasma ∧ fieldOf abTags "difficulty" = some .difficulty ∧
    fieldOf abTags "nonce" = some .nonce ∧ fieldOf abTags "basePlasma" = some .basePlasma ∧
    fieldOf abTags "usedPlasma" = some .totalPlasma ∧ fieldOf abTags "changesHash" = some .changesHash ∧
    fieldOf abTags "publicKey" = some .publicKey ∧ fieldOf abTags "signature" = some .signature := by
  decide

private theorem momF :
    fieldOf momTags "version" = some .version ∧ fieldOf momTags "chainIdentifier" = some .chainIdentifier ∧
    fieldOf momTags "hash" = some .hash ∧ fieldOf momTags "previousHash" = some .previousHash ∧
    fieldOf momTags "height" = some .height ∧ fieldOf momTags "timestamp" = some .timestamp ∧
    fieldOf momTags "data" = some .data ∧ fieldOf momTags "content" = some .content ∧
    fieldOf momTags "changesHash" = some .changesHash ∧ fieldOf momTags "publicKey" = some .publicKey ∧
    fieldOf momTags "signature" = some .signature := by
  decide

-- the members of a marshalled block (possibly with some of them filtered away) pushed through `unmMembers`
set_option hygiene false in
local macro "ab_simp" : tactic => `(tactic|
    simp only [marshalBlock, unmarshalBlock, unmMembers, abF, setLeaf, auxZero, bind, Except.bind, pure, Except.pure,
      decU64_u64J _ _ w.version, decU64_u64J _ _ w.chainIdentifier, decU64_u64J _ _ w.blockType,
      decU64_u64J _ _ w.height, decU64_u64J _ _ w.fusedPlasma, decU64_u64J _ _ w.difficulty,
      decU64_u64J _ _ w.basePlasma, decU64_u64J _ _ w.totalPlasma,
      decText_ok L.hashParse .badHash _ _ _ (hL.hash _ w.hash.1 w.hash.2),
      decText_ok L.hashParse .badHash _ _ _ (hL.hash _ w.previousHash.1 w.previousHash.2),
      decText_ok L.hashParse .badHash _ _ _ (hL.hash _ w.fromBlockHash.1 w.fromBlockHash.2),
      decText_ok L.hashParse .badHash _ _ _ (hL.hash _ w.changesHash.1 w.changesHash.2),
      decText_ok L.addrParse .badAddress _ _ _ (hL.addr _ w.address.1 w.address.2),
      decText_ok L.addrParse .badAddress _ _ _ (hL.addr _ w.toAddress.1 w.toAddress.2),
      decText_ok L.ztsParse .badZts _ _ _ (hL.zts _ w.tokenStandard.1 w.tokenStandard.2),
      decHashHeight_mar L hL _ _ w.momentumAcknowledged, decString_amount, decString_nonce,
      decBytes_ok L hL _ w.data, decBytes_ok L hL _ w.publicKey, decBytes_ok L hL _ w.signature, ih])

/-! ## round trip -/

/-- C13 / C18: `UnmarshalJSON(MarshalJSON(b)) = b` for every block the Go types can hold (byte values, array widths
    32 / 20 / 10 / 8, uint64 ranges, at every level of descendants), with ANY integer amount (a negative one
    too: "-5" parses), for any leaf text codecs that round-trip (`Leaves.WF`). Every member is preserved, hence
    the hash (`json_roundtrip_block_hash`). -/
theorem json_roundtrip_block (L : Leaves) (hL : L.WF) (b : Block) (hb : BlockJ b) :
    unmarshalBlock L (marshalBlock L b) = .ok b := by
  revert hb
  refine Block.rec
    (motive_1 := fun b => BlockJ b → unmarshalBlock L (marshalBlock L b) = .ok b)
    (motive_2 := fun ds => BlocksJ ds → unmBlocks L (marshalBlocks L ds) = .ok (ds, false))
    ?_ ?_ ?_ b
  · intro body ds ih w
    rw [BlockJ] at w
    obtain ⟨w, wds⟩ := w
    have ih := ih wds
    have hn : nonceUnmarshalText (hexChars body.nonce) = some body.nonce := by
      simp [nonceUnmarshalText, ofHexChars_hexChars body.nonce w.nonce.1, w.nonce.2]
    ab_simp
    simp [finish, hn, stringToBigInt_showAmount]
  · intro _; simp [marshalBlocks, unmBlocks]
  · intro d ds ihd ihds w
    rw [BlocksJ] at w
    obtain ⟨ms, hms⟩ := marshalBlock_obj L d
    have h1 := ihd w.1
    rw [hms] at h1
    rw [marshalBlocks, hms, unmBlocks_cons_ok L ms _ d _ h1 (ihds w.2)]

/-- … with its hash preserved: the block that comes back has the same hash pre-image and stored hash -/
theorem json_roundtrip_block_hash (L : Leaves) (hL : L.WF) (H : Bytes → Bytes) (b : Block) (hb : BlockJ b) :
    ∃ r, unmarshalBlock L (marshalBlock L b) = .ok r ∧ abComputeHash H r = abComputeHash H b ∧
      r.body.hash = b.body.hash :=
  ⟨b, json_roundtrip_block L hL b hb, rfl, rfl⟩

/-- hypotheses are satisfiable: hex leaves, a block with a negative amount and one descendant -/
example : toyLeaves.WF ∧ BlockJ ⟨{ bodyZero with amount := -5, version := 1 }, [⟨bodyZero, []⟩]⟩ := by
  refine ⟨toyLeaves_wf, ?_⟩
  simp only [BlockJ, BlocksJ, and_true]
  have hb : BodyJ bodyZero := by
    constructor <;> first | decide | (constructor <;> decide)
  exact ⟨{ hb with version := by decide }, hb⟩

/-- `json.Unmarshal(json.Marshal(m)) = m` for every momentum the Go types can hold -/
theorem json_roundtrip_momentum (L : Leaves) (hL : L.WF) (m : Momentum) (w : MomentumJ m) :
    unmarshalMomentum L (marshalMomentum L m) = .ok m := by
  simp [marshalMomentum, unmarshalMomentum, momFill, momF, bind, Except.bind, pure, Except.pure,
    decU64_u64J _ _ w.version, decU64_u64J _ _ w.chainIdentifier, decU64_u64J _ _ w.height,
    decU64_u64J _ _ w.timestampUnix,
    decText_ok L.hashParse .badHash _ _ _ (hL.hash _ w.hash.1 w.hash.2),
    decText_ok L.hashParse .badHash _ _ _ (hL.hash _ w.previousHash.1 w.previousHash.2),
    decText_ok L.hashParse .badHash _ _ _ (hL.hash _ w.changesHash.1 w.changesHash.2),
    decBytes_ok L hL _ w.data, decBytes_ok L hL _ w.publicKey, decBytes_ok L hL _ w.signature,
    decContent, decHeaders_mar L hL m.content [] w.content, allSome_map_some]

example : MomentumJ { momZero with content := [ahZero], timestampUnix := 7 } := by
  constructor <;> first | decide | (constructor <;> decide) | skip
  intro h hh
  simp at hh
  subst hh
  constructor <;> first | decide | (constructor <;> decide)

/-! ## unknown members, missing members -/

/-- a member whose name matches no tag (neither exactly nor case-folded) is skipped, wherever it stands and
    whatever its value is: `producer`, `Timestamp`, `token`, `confirmationDetail`, `pairedAccountBlock` … -/
theorem json_unknown_members_ignored (L : Leaves) (k : String) (v : Json) (hk : fieldOf abTags k = none)
    (ms₁ ms₂ : List (String × Json)) :
    unmarshalBlock L (.obj (ms₁ ++ (k, v) :: ms₂)) = unmarshalBlock L (.obj (ms₁ ++ ms₂)) := by
  have key : ∀ (ms₁ : List (String × Json)) (a : Aux),
      unmMembers L (ms₁ ++ (k, v) :: ms₂) a = unmMembers L (ms₁ ++ ms₂) a := by
    intro ms₁
    induction ms₁ with
    | nil => intro a; rw [List.nil_append, List.nil_append, unmMembers_cons, hk]; rfl
    | cons kv t ih =>
      intro a
      obtain ⟨k', v'⟩ := kv
      rw [List.cons_append, List.cons_append, unmMembers_cons, unmMembers_cons]
      cases stepMember L (fieldOf abTags k') v' a with
      | error e => rfl
      | ok a' => exact ih a'
  simp only [unmarshalBlock, key]

/-- the names the api wrapper adds, and the unexported / Go-side names, match no tag -/
example : fieldOf abTags "producer" = none ∧ fieldOf abTags "token" = none ∧
    fieldOf abTags "confirmationDetail" = none ∧ fieldOf abTags "pairedAccountBlock" = none ∧
    fieldOf abTags "totalPlasma" = none ∧ fieldOf abTags "USEDPLASMA" = some .totalPlasma := by decide

/-- the same for momentums -/
theorem json_unknown_members_ignored_momentum (L : Leaves) (k : String) (v : Json) (hk : fieldOf momTags k = none)
    (ms₁ ms₂ : List (String × Json)) :
    unmarshalMomentum L (.obj (ms₁ ++ (k, v) :: ms₂)) = unmarshalMomentum L (.obj (ms₁ ++ ms₂)) := by
  have key : ∀ (ms₁ : List (String × Json)) (a : MAux),
      momFill L (ms₁ ++ (k, v) :: ms₂) a = momFill L (ms₁ ++ ms₂) a := by
    intro ms₁
    induction ms₁ with
    | nil => intro a; simp [momFill, hk]
    | cons kv t ih =>
      intro a
      obtain ⟨k', v'⟩ := kv
      simp only [List.cons_append, momFill]
      split <;> first
        | exact ih a
        | (simp only [bind, Except.bind]; split <;> first | rfl | exact ih _)
  simp only [unmarshalMomentum, key]

private theorem blocks_rt (L : Leaves) (hL : L.WF) : ∀ ds : List Block, BlocksJ ds →
    unmBlocks L (marshalBlocks L ds) = .ok (ds, false) := by
  intro ds
  induction ds with
  | nil => intro _; simp [marshalBlocks, unmBlocks]
  | cons d t ih =>
    intro w
    rw [BlocksJ] at w
    obtain ⟨ms, hms⟩ := marshalBlock_obj L d
    have h1 := json_roundtrip_block L hL d w.1
    rw [hms] at h1
    rw [marshalBlocks, hms, unmBlocks_cons_ok L ms _ d _ h1 (ih w.2)]

/-- a missing member leaves the Go zero value — for every member except `nonce`: the marshalled block with the
    member `name` removed parses to the block with that member zeroed (descendantBlocks: none) -/
theorem json_missing_member_default (L : Leaves) (hL : L.WF) (body : ABody) (ds : List Block)
    (hb : BlockJ ⟨body, ds⟩) (name : String) (f : AF) (hf : (name, f) ∈ abTags) (hne : f ≠ .nonce) :
    unmarshalBlock L (dropMember name (marshalBlock L ⟨body, ds⟩)) = .ok (zeroField f ⟨body, ds⟩) := by
  rw [BlockJ] at hb
  obtain ⟨w, wds⟩ := hb
  have ih := blocks_rt L hL ds wds
  have hn : nonceUnmarshalText (hexChars body.nonce) = some body.nonce := by
    simp [nonceUnmarshalText, ofHexChars_hexChars body.nonce w.nonce.1, w.nonce.2]
  have h0 : stringToBigInt [] = 0 := by decide
  simp only [abTags, List.mem_cons, Prod.mk.injEq, List.mem_nil_iff, or_false] at hf
  rcases hf with ⟨rfl, rfl⟩ | ⟨rfl, rfl⟩ | ⟨rfl, rfl⟩ | ⟨rfl, rfl⟩ | ⟨rfl, rfl⟩ | ⟨rfl, rfl⟩ | ⟨rfl, rfl⟩ | ⟨rfl, rfl⟩ |
    ⟨rfl, rfl⟩ | ⟨rfl, rfl⟩ | ⟨rfl, rfl⟩ | ⟨rfl, rfl⟩ | ⟨rfl, rfl⟩ | ⟨rfl, rfl⟩ | ⟨rfl, rfl⟩ | ⟨rfl, rfl⟩ | ⟨rfl, rfl⟩ |
    ⟨rfl, rfl⟩ | ⟨rfl, rfl⟩ | ⟨rfl, rfl⟩ | ⟨rfl, rfl⟩ | ⟨rfl, rfl⟩
  all_goals first
    | exact absurd rfl hne
    | (simp (config := { decide := true }) only [marshalBlock, dropMember, List.filter_cons, List.filter_nil, ne_eq,
        decide_not, ite_true, ite_false, Bool.not_true, Bool.not_false, decide_true, decide_false,
        Bool.false_eq_true]
       ab_simp
       simp [finish, hn, stringToBigInt_showAmount, zeroField, bodyZero, h0])

/-- `json_member_order_irrelevant_partial`: the marshalled block with its members in REVERSED order (so the relative
    order of every pair of members is flipped, descendantBlocks before / after every other member) parses to the
    same block. PARTIAL: one permutation of the marshalled members, not every permutation of every object without
    repeated folded names (missing: pairwise commutation of the 22 member setters lifted to `List.Perm`, and the
    statement modulo WHICH error is reported, since the first error in document order changes with the order);
    arbitrary shuffles are replayed against the model and checked model-free on the `codec` stream
    (`jm-shuffle`, `jm-shuffle-desc`, `jmm-shuffle`). -/
theorem json_member_order_irrelevant_partial (L : Leaves) (hL : L.WF) (body : ABody) (ds : List Block)
    (hb : BlockJ ⟨body, ds⟩) :
    unmarshalBlock L (reverseMembers (marshalBlock L ⟨body, ds⟩)) = .ok ⟨body, ds⟩ := by
  rw [BlockJ] at hb
  obtain ⟨w, wds⟩ := hb
  have ih := blocks_rt L hL ds wds
  have hn : nonceUnmarshalText (hexChars body.nonce) = some body.nonce := by
    simp [nonceUnmarshalText, ofHexChars_hexChars body.nonce w.nonce.1, w.nonce.2]
  simp only [marshalBlock, reverseMembers, List.reverse_cons, List.reverse_nil, List.nil_append, List.cons_append]
  ab_simp
  simp [finish, hn, stringToBigInt_showAmount]

/-- … and a missing `nonce` is an ERROR of `UnmarshalJSON` ("invalid nonce length": the empty string decodes to 0
    bytes), whatever the other members are: a block object without nonce never parses -/
theorem json_missing_nonce_is_error (a : Aux) (h : a.nonce = "") : finish a = .error .badNonce := by
  simp [finish, h, nonceUnmarshalText, ofHexChars]

/-- which of the defaults change the hash: zeroing a member whose Go field is not among the arguments of
    `ComputeHash` (`Gen.abHashFields`; `DescendantBlocks` enters as `DescendantBlocksHash`) leaves the hash
    pre-image unchanged — these are hash, basePlasma, usedPlasma, changesHash, publicKey, signature; the other 16
    are covered (`json_missing_member_covered`) -/
theorem json_missing_member_hash_neutral (H : Bytes → Bytes) (f : AF) (b : Block)
    (hf : goFieldOf f ∉ Gen.abHashFields.map (·.1) ∧ f ≠ .descendantBlocks) :
    abPreimage H (zeroField f b) = abPreimage H b := by
  obtain ⟨body, ds⟩ := b
  cases f <;> first
    | exact absurd hf (by decide)
    | simp [zeroField, abPreimage, abHashParts]

theorem json_missing_member_covered :
    (abTags.filter (fun t => goFieldOf t.2 ∈ Gen.abHashFields.map (·.1) ∨ t.2 = .descendantBlocks)).map (·.1) =
      ["version", "chainIdentifier", "blockType", "previousHash", "height", "momentumAcknowledged", "address",
       "toAddress", "amount", "tokenStandard", "fromBlockHash", "descendantBlocks", "data", "fusedPlasma",
       "difficulty", "nonce"] := by
  decide

/-! ## amount texts -/

set_option maxRecDepth 16384 in
/-- what `common.StringToBigInt` makes of the amount member: a leading '+' or '-' is accepted, leading zeros too;
    a fraction, an exponent, a base prefix, the empty string, a blank, a digit separator and "<nil>" (what a nil
    `*big.Int` marshals to) all give 0 and NO error; a value of 2^256 parses to itself (no bound in this layer) -/
theorem json_amount_forms :
    stringToBigInt "+5".toList = 5 ∧ stringToBigInt "-5".toList = -5 ∧ stringToBigInt "007".toList = 7 ∧
    stringToBigInt "1.5".toList = 0 ∧ stringToBigInt "1e3".toList = 0 ∧ stringToBigInt "0x10".toList = 0 ∧
    stringToBigInt "".toList = 0 ∧ stringToBigInt " 5".toList = 0 ∧ stringToBigInt "1_000".toList = 0 ∧
    stringToBigInt "<nil>".toList = 0 ∧ stringToBigInt "-".toList = 0 ∧ stringToBigInt "+-5".toList = 0 ∧
    stringToBigInt "115792089237316195423570985008687907853269984665640564039457584007913129639936".toList
      = 2 ^ 256 := by
  decide

/-- the general statement: the amount of a parsed block is `StringToBigInt` of the last amount text, which is 0
    whenever `SetString(s, 10)` fails — never an error -/
theorem json_amount_unparsable_is_zero (a : Aux) (b : Block) (h : finish a = .ok b) :
    b.body.amount = stringToBigInt a.amount.toList ∧
    (setString10 a.amount.toList = none → b.body.amount = 0) := by
  unfold finish at h
  split at h
  · cases h
  · split at h
    · cases h
    · cases h
      refine ⟨rfl, fun hn => ?_⟩
      simp [stringToBigInt, hn]

/-- a JSON number for the amount (or a string for a uint64 member) is a type error, `null` is a no-op -/
theorem json_amount_type_forms (cur : String) :
    decString (.num "5") cur = .error .typeMismatch ∧ decString .null cur = .ok cur ∧
    decU64 (.str "12") 3 = .error .typeMismatch ∧ decU64 .null 3 = .ok 3 ∧
    decU64 (.num "1.0") 3 = .error .badNumber ∧ decU64 (.num "1e2") 3 = .error .badNumber ∧
    decU64 (.num "-1") 3 = .error .badNumber ∧ decU64 (.num "18446744073709551616") 3 = .error .badNumber ∧
    decU64 (.num "18446744073709551615") 3 = .ok 18446744073709551615 := by
  exact ⟨rfl, rfl, rfl, rfl, rfl, rfl, rfl, rfl, rfl⟩

/-! ## negative witnesses -/

/-- nil and empty byte slices marshal differently in Go (`null` vs `""`) yet are the same block bytes and parse to
    the same block: the JSON text is NOT a function of the block content (the model prints one form, the stream
    compares modulo null / "") -/
theorem json_nil_vs_empty_data (L : Leaves) (h : L.b64Parse "" = some []) :
    decBytes L .null = .ok [] ∧ decBytes L (.str "") = .ok [] ∧ (Json.null ≠ Json.str "") ∧
    b64Parse "" = some [] ∧ b64Text [] = "" := by
  refine ⟨rfl, by simp [decBytes, h], by simp, by decide, by decide⟩

/-- a `null` element of descendantBlocks is not an error of `UnmarshalJSON`: the result holds a nil pointer
    (outcome `nilDescendant`, not a block) -/
theorem json_null_descendant_not_a_block (L : Leaves) :
    unmBlocks L [.null] = .ok ([], true) ∧
    finish { auxZero with nonce := "0000000000000000", nilSeen := true } = .error .nilDescendant := by
  refine ⟨by simp [unmBlocks, pure, Except.pure, bind, Except.bind], by rfl⟩

/-- hash text: exactly 64 hex characters of either case; 63 / 65 characters or a 0x prefix are refused -/
theorem json_hash_forms :
    hexHashParse (String.ofList (List.replicate 64 'A')) = some (List.replicate 32 170) ∧
    hexHashParse (String.ofList (List.replicate 63 'a')) = none ∧
    hexHashParse (String.ofList (List.replicate 65 'a')) = none ∧
    hexHashParse (String.ofList ('0' :: 'x' :: List.replicate 62 'a')) = none := by
  decide

end ZV.C13Json

