import ZenonVerif.Model.Points
/-
C11 — "the credited amounts are a function of the chain alone": the consensus statistics part. The pillar contract
splits an epoch's emission with the epoch point `compound lowers` of the period points of that epoch. `compound` is a
Lean FUNCTION of the list of period points (values), which is the statement that the answer does not depend on what
was asked before; the `points` lines of the rewards-pure stream compare it with folds performed on the real, cached
`storage.Point` objects (the same objects folded repeatedly), and the rewards-node stream asks a real node's
PillarReader and compares with a fresh consensus instance. The theorems below are the conservation facts the reward
bound needs from the aggregation: an epoch point counts every produced momentum and every expected slot of its
period points exactly once, and its total weight is the sum of the pillar weights.
-/
namespace ZV.C11Points
open ZV.Points

/-- T1 `epoch_point_counts_once`: the produced momentums an epoch point reports (over all pillars) are exactly those of
    its period points — no momentum is counted twice, whatever the pillar sets of the periods (pillars entering or
    leaving mid-epoch). -/
theorem epoch_point_counts_once (lowers : List Point) :
    sumFactual (compound lowers).pillars = (lowers.map (fun l => sumFactual l.pillars)).sum :=
  compound_factual lowers

/-- T2: the same for the expected slots. -/
theorem epoch_point_expects_once (lowers : List Point) :
    sumExpected (compound lowers).pillars = (lowers.map (fun l => sumExpected l.pillars)).sum :=
  compound_expected lowers

/-- T3: if every period point reports at most `n` produced momentums (a period has `n` slots), an epoch of `k`
    periods reports at most `k * n` — the premise "Σ produced ≤ MomentumsPerEpoch" of the pillar reward bound. -/
theorem epoch_point_bounded (lowers : List Point) (n : Nat) (h : ∀ l ∈ lowers, sumFactual l.pillars ≤ n) :
    sumFactual (compound lowers).pillars ≤ lowers.length * n := by
  rw [epoch_point_counts_once]
  induction lowers with
  | nil => simp
  | cons l rest ih =>
    have h1 := h l (by simp)
    have h2 := ih (fun x hx => h x (by simp [hx]))
    simp only [List.map_cons, List.sum_cons, List.length_cons]
    rw [Nat.add_mul]
    omega

/-- T4: the total weight reported is the sum of the reported pillar weights (premise Σ weight ≤ TotalWeight). -/
theorem epoch_point_total (lowers : List Point) :
    (compound lowers).total = ((compound lowers).pillars.map (fun e => e.2.weight)).sum := compound_total lowers

/-- a concrete epoch of two periods with a pillar (2) that left before the newer period: its counters are taken over
    from the older period unchanged, its weight is averaged over both periods -/
example :
    let older : Point := ⟨[(1, ⟨10, 9, 100⟩), (2, ⟨10, 10, 50⟩)], 150⟩
    let newer : Point := ⟨[(1, ⟨10, 8, 120⟩)], 120⟩
    compound [newer, older] = ⟨[(1, ⟨20, 17, 110⟩), (2, ⟨10, 10, 25⟩)], 135⟩ := by decide

end ZV.C11Points
