import ZenonVerif.Lemmas.LedgerNode
import ZenonVerif.Props.C04
/-
C04, node level: "This holds across replacement of unconfirmed blocks, reorganisations and restarts."
The node (`Model/LedgerNode.lean`) keeps the confirmed momentums with one store version each, the unconfirmed pool and the
STORED contract inboxes. Every theorem quantifies over ALL operation lists (block into the pool at any pool height =
fast-forward or replacement, momentum insertion with any content, rollback to any height, restart), of any length.
`g` is the genesis version of the ledger database.
-/
namespace ZV.C04Node
open ZV.Ledger ZV.LedgerNode

/-- the node reached from genesis `g` by `ops`, rolled back to `h`, then driven on by `ops2` -/
abbrev after (g : Store) (ops : List Op) (h : Nat) (ops2 : List Op) : Node :=
  (((Node.genesis g).run ops).rollbackTo h).run ops2

theorem inv_after (g : Store) (ops : List Op) (h : Nat) (ops2 : List Op) : Inv (after g ops h ops2) :=
  inv_run ops2 (inv_apply (inv_run ops (inv_genesis g)) (.rollbackTo h))

theorem gen_after (g : Store) (ops : List Op) (h : Nat) (ops2 : List Op) : (after g ops h ops2).gen = g := by
  have h1 : (((Node.genesis g).run ops).rollbackTo h) = ((Node.genesis g).run ops).apply (.rollbackTo h) := rfl
  rw [after, gen_run, h1, gen_apply, gen_run]; rfl

/-- Reorganisation leaves no trace in the ledger: after a rollback to ANY height `h` of ANY reachable node, the confirmed
    store (ledger + stored inbox counters) EQUALS the store obtained by confirming the first `h` momentums alone on
    genesis — hence it is a `Ledger.Reach` state and every invariant of Props/C01 + Props/C04 holds for it. -/
theorem reach_closed_under_rollback (g : Store) (ops : List Op) (h : Nat)
    (hh : h ≤ ((Node.genesis g).run ops).chain.length) :
    replay g (((Node.genesis g).run ops).moms.take h) = .ok (((Node.genesis g).run ops).rollbackTo h).frontier ∧
    Reach g.led (((Node.genesis g).run ops).rollbackTo h).frontier.led := by
  have hi := inv_after g ops h []
  have hg := gen_after g ops h []
  simp only [after, Node.run] at hi hg
  have hr := hi.replay
  rw [hg, moms_rollbackTo _ _ hh] at hr
  refine ⟨hr, ?_⟩
  have := hi.frontier_reach
  rwa [hg] at this

/-- every confirmed state a node ever shows — before, right after and any time after a reorganisation — is a ledger
    state reachable by accepted events from genesis -/
theorem confirmed_reachable (g : Store) (ops : List Op) (h : Nat) (ops2 : List Op) :
    Reach g.led (after g ops h ops2).frontier.led := by
  have := (inv_after g ops h ops2).frontier_reach
  rwa [gen_after] at this

/-- the ledger seen through the pool (confirmed + all pooled blocks, account after account, each account's blocks in
    chain order) is a reachable ledger state as well, and it extends the confirmed one -/
theorem pool_view_reachable (g : Store) (ops : List Op) (h : Nat) (ops2 : List Op) :
    Reach g.led (after g ops h ops2).poolView.led ∧
    Reach (after g ops h ops2).frontier.led (after g ops h ops2).poolView.led := by
  have hi := inv_after g ops h ops2
  have := hi.poolView_reach
  rw [gen_after] at this
  exact ⟨this, hi.poolView_over_frontier⟩

/-- at most one receive per send on the whole current chain, whatever was rolled back before -/
theorem receive_once_across_reorg (g : Store) (hg : g.led.gate = true) (hw : WF g.led)
    (ops : List Op) (h : Nat) (ops2 : List Op) :
    ((after g ops h ops2).frontier.led.recv.map (·.2)).Nodup ∧
    ∀ a x, (a, x) ∈ (after g ops h ops2).frontier.led.recv →
      ∃ s, findSend (after g ops h ops2).frontier.led.sends x = some s ∧ s.dst = a :=
  ⟨C04.receive_once_globally _ _ hg hw (confirmed_reachable g ops h ops2),
   fun a x hm => C04.receive_only_by_addressee _ _ hg hw (confirmed_reachable g ops h ops2) a x hm⟩

/-- contract inboxes stay strict FIFO across reorganisations -/
theorem fifo_across_reorg (g : Store) (hw : WF g.led) (hf : Fifo g.led) (ops : List Op) (h : Nat) (ops2 : List Op)
    (c : Addr) (hc : isEmbedded c = true) :
    receivedBy (after g ops h ops2).frontier.led c <+: inboxOf (after g ops h ops2).frontier.led c :=
  C04.contract_fifo _ _ hw hf (confirmed_reachable g ops h ops2) c hc

/-- a send cannot be received by one pooled and one confirmed receive (nor by two pooled ones): the markers of the pool
    view are the confirmed markers plus the pooled ones, and no send hash occurs twice among them -/
theorem no_double_receive_pool_and_chain (g : Store) (hg : g.led.gate = true) (hw : WF g.led)
    (ops : List Op) (h : Nat) (ops2 : List Op) :
    ((after g ops h ops2).poolView.led.recv.map (·.2)).Nodup ∧
    ∃ pooled, (after g ops h ops2).poolView.led.recv = pooled ++ (after g ops h ops2).frontier.led.recv := by
  obtain ⟨h1, h2⟩ := pool_view_reachable g ops h ops2
  obtain ⟨_, _, hm⟩ := h2.mono
  exact ⟨C04.receive_once_globally _ _ hg hw h1, hm⟩

/-- a pooled (so displaceable) send is received by nobody: every receive marker of the pool view — pooled receives of
    every account included — names a CONFIRMED send. Displacing a pooled send therefore cannot leave a receive of it
    behind in another account's pool (`fromHash` looks the send up in the momentum store). -/
theorem pooled_receive_names_confirmed_send (g : Store) (hw : WF g.led) (ops : List Op) (h : Nat) (ops2 : List Op) :
    ∀ m ∈ (after g ops h ops2).poolView.led.recv,
      m.2 ∈ (after g ops h ops2).frontier.led.sends.map (·.hash) := by
  intro m hm
  have hi := inv_after g ops h ops2
  rcases poolRun_marker hi.poolView_run m hm with h1 | h1
  · exact ((confirmed_reachable g ops h ops2).wf hw).recvConfirmed m h1
  · exact findSend_isSome_mem h1

/-- replacement of unconfirmed blocks: when a block is accepted at pool height `k` of its account, the account's pool is
    exactly its first `k` pooled blocks + the new block (the displaced block and everything built on it are gone, so a
    send named by a displaced receive has no marker left and is receivable again), every other account's pool is what
    re-verification keeps, and in the new pool view every send is still received at most once, only confirmed sends
    are received. -/
theorem replacement_keeps_receive_once (g : Store) (hg : g.led.gate = true) (hw : WF g.led)
    (ops : List Op) (k : Nat) (e : Ev) (n' : Node) (hput : ((Node.genesis g).run ops).putBlock k e = .ok n') :
    n'.pool = (rebuild ((Node.genesis g).run ops).frontier ((Node.genesis g).run ops).frontier
                (((Node.genesis g).run ops).pool.filter (fun x => x.1 != acct e))).1 ++
              [(acct e, (getPool ((Node.genesis g).run ops).pool (acct e)).take k ++ [e])] ∧
    (n'.poolView.led.recv.map (·.2)).Nodup ∧
    ∀ m ∈ n'.poolView.led.recv, m.2 ∈ n'.frontier.led.sends.map (·.hash) := by
  have hn : n' = after g ops (((Node.genesis g).run ops).chain.length) [.put k e] := by
    simp only [after, Node.run, Node.rollbackTo, Nat.lt_irrefl, if_false, Node.apply, hput]
  obtain ⟨_, _, _, _, hp⟩ := putBlock_ok hput
  refine ⟨hp, ?_, ?_⟩
  · rw [hn]; exact (no_double_receive_pool_and_chain g hg hw ops _ _).1
  · rw [hn]; exact pooled_receive_names_confirmed_send g hw ops _ _

/-- restart: the pool is gone, nothing confirmed changes -/
theorem restart_same_ledger (n : Node) :
    n.restart.chain = n.chain ∧ n.restart.frontier = n.frontier ∧ n.restart.moms = n.moms ∧ n.restart.pool = [] :=
  ⟨rfl, rfl, rfl, rfl⟩

/-- "reorganisation leaves no trace" for the received markers: in every reachable node — after any number of rollbacks,
    replacements and restarts — the stored marker list is exactly the markers written by the receives of the momentums
    of the CURRENT chain (newest first), on top of the genesis markers. No marker of an abandoned branch survives. -/
theorem received_marker_iff_confirmed_receive (g : Store) (ops : List Op) (h : Nat) (ops2 : List Op) :
    (after g ops h ops2).frontier.led.recv = markersOf (after g ops h ops2).moms.flatten ++ g.led.recv := by
  have h2 := chainOk_markers (inv_after g ops h ops2).chain
  simp only [Node.frontier, Node.moms]
  rw [gen_after] at h2 ⊢
  exact h2

/-- the stored inbox (front / back counters + entries) refines the list view of Props/C04 in every reachable node,
    rollbacks included: the entries are the confirmed sends addressed to the contract in confirmation order, `back` is
    their number, `front` the number of receives of the contract on the current chain (so it moves BACK when receives
    are rolled back), the entries from `front` on are the confirmed, unreceived sends, and `SequencerFront` answers what
    the list model calls next in line. -/
theorem sequencer_counters_refine_list (g : Store) (hs : SeqRef g) (hw : WF g.led) (hf : Fifo g.led)
    (ops : List Op) (h : Nat) (ops2 : List Op) (c : Addr) (hc : isEmbedded c = true) :
    ((after g ops h ops2).frontier.seq c).entries = inboxOf (after g ops h ops2).frontier.led c ∧
    ((after g ops h ops2).frontier.seq c).back = ((after g ops h ops2).frontier.seq c).entries.length ∧
    ((after g ops h ops2).frontier.seq c).front = (receivedBy (after g ops h ops2).frontier.led c).length ∧
    ((after g ops h ops2).frontier.seq c).entries.drop ((after g ops h ops2).frontier.seq c).front =
      (pendingFor (after g ops h ops2).frontier.led c).map (·.hash) ∧
    ((after g ops h ops2).frontier.seq c).frontEntry = (nextInLine (after g ops h ops2).frontier.led c).map (·.hash) := by
  have hi := inv_after g ops h ops2
  have hr : SeqRef (after g ops h ops2).frontier := by
    have := chainOk_seqRef (g := (after g ops h ops2).gen) (by rw [gen_after]; exact hs) hi.chain
    exact this
  obtain ⟨hw', hf'⟩ := (confirmed_reachable g ops h ops2).fifo hw hf
  obtain ⟨r1, r2, r3⟩ := hr c hc
  have hp := seqRef_pending hr hw' hf' hc
  refine ⟨r1, r2, r3, hp, ?_⟩
  rw [nextInLine_eq_head, ← List.head?_map, ← hp, List.head?_drop, SeqC.frontEntry]
  split
  · rename_i he
    rw [he, r2]; simp
  · rfl

/-! ## non-vacuity: a concrete reorganisation -/

/-- genesis: user 16 holds 100 of token 1 (supply 100, max 200), empty inboxes -/
def demoGen : Store :=
  ⟨{ bal := [((16, 1), 100)], sends := [], recv := [], toks := [(1, ⟨100, 200, true, true, 16⟩)], gate := true },
   fun _ => SeqC.empty⟩

/-- 16 pays 7 to 17 (momentum 1); 17 receives (momentum 2); 16 calls contract 3 twice (momentum 3); contract 3 answers
    the first call (momentum 4) -/
def demoOps : List Op :=
  [ .put 0 (.usend 16 17 1 7 100 .none), .insertMomentum [(16, 1)],
    .put 0 (.urecv 17 100), .insertMomentum [(17, 1)],
    .put 0 (.usend 16 3 1 2 101 .none), .put 1 (.usend 16 3 1 1 102 .none), .insertMomentum [(16, 2)],
    .put 0 (.crecv 3 101 1 []), .insertMomentum [(3, 1)] ]

/-- before the reorganisation: two markers, the inbox of contract 3 holds [101, 102] with front 1 -/
example : ((Node.genesis demoGen).run demoOps).frontier.led.recv = [(3, 101), (17, 100)] ∧
    ((Node.genesis demoGen).run demoOps).frontier.seq 3 = ⟨2, [101, 102], 1⟩ ∧
    ((Node.genesis demoGen).run demoOps).chain.length = 4 := by decide

/-- rollback to height 3: the contract's receive is gone, its marker too, and the stored front counter is back at 0;
    to height 1: the inbox is empty again and 17's marker is gone -/
example : (after demoGen demoOps 3 []).frontier.led.recv = [(17, 100)] ∧
    (after demoGen demoOps 3 []).frontier.seq 3 = ⟨2, [101, 102], 0⟩ ∧
    (after demoGen demoOps 1 []).frontier.led.recv = [] ∧
    (after demoGen demoOps 1 []).frontier.seq 3 = SeqC.empty := by decide

/-- shape of the pool: per account, per block: (hashes it receives, hashes of the sends it adds) -/
def poolShape (n : Node) : List (Nat × List (List Nat × List Nat)) :=
  n.pool.map (fun x => (x.1, x.2.map (fun e => (e.markers.map (·.2), e.newHashes))))

def errOf : Except NErr Node → Option NErr
  | .ok _ => none
  | .error e => some e

/-- after the rollback to 1 the send 100 is receivable again — once: a second receive on top of the first is refused,
    in the pool and after confirmation; a competitor at pool height 0 displaces the pooled receive -/
example : poolShape (after demoGen demoOps 1 [.put 0 (.urecv 17 100)]) = [(17, [([100], [])])] ∧
    errOf ((after demoGen demoOps 1 [.put 0 (.urecv 17 100)]).putBlock 1 (.urecv 17 100)) =
      some (.ledger .alreadyReceived) ∧
    errOf ((after demoGen demoOps 1 [.put 0 (.urecv 17 100), .insertMomentum [(17, 1)]]).putBlock 0 (.urecv 17 100)) =
      some (.ledger .alreadyReceived) ∧
    poolShape (after demoGen demoOps 1 [.put 0 (.urecv 17 100), .put 0 (.usend 17 16 1 0 103 .none)]) =
      [(17, [([], [103])])] ∧
    poolShape (after demoGen demoOps 1 [.put 0 (.urecv 17 100), .put 0 (.usend 17 16 1 0 103 .none),
        .put 1 (.urecv 17 100)]) = [(17, [([], [103]), ([100], [])])] := by decide

/-- a pooled send is not receivable: 17 cannot receive 16's send 104 before a momentum confirmed it -/
example : errOf ((after demoGen demoOps 4 [.put 0 (.usend 16 17 1 1 104 .none)]).putBlock 0 (.urecv 17 104)) =
    some .fromUnconfirmed := by decide

example : WF demoGen.led ∧ Fifo demoGen.led ∧ SeqRef demoGen ∧ demoGen.led.gate = true := by
  refine ⟨by decide, ?_, ?_, rfl⟩
  · intro c _; simp [receivedBy, inboxOf, demoGen]
  · intro c _; simp [receivedBy, inboxOf, demoGen, SeqC.empty]

end ZV.C04Node
