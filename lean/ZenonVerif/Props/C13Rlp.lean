import ZenonVerif.Model.CodecRLPTyped
import ZenonVerif.Lemmas.Codec
import ZenonVerif.Lemmas.CodecRLP
/-
C13 T3, RLP: the typed layer of the decoder (go-ethereum reflection over `nom.AccountBlock`) is the inverse of the typed
encoder on every block the Go types can hold.
-/
namespace ZV.C13Rlp
open ZV ZV.Codec

private theorem headD_ne (n : Nat) : (List.head? (natBytesBE n)).getD 1 ≠ 0 := by
  by_cases h0 : n = 0
  · subst h0; decide
  · have hp := natBytesBE_length_pos n h0
    have hh := natBytesBE_head n h0
    cases h : natBytesBE n with
    | nil => rw [h] at hp; simp at hp
    | cons x xs => rw [h] at hh; simpa using hh

private theorem rU64_rNat (n : Nat) (h : n < two64) : rU64 (rNat n) = some n := by
  simp [rU64, rNat, natBytesBE_length_le8 n h, headD_ne n, beVal_natBytesBE]

private theorem rBig_rNat (a : Int) (h : 0 ≤ a) : rBig (rNat a.toNat) = some a := by
  have := Int.toNat_of_nonneg h
  simp [rBig, rNat, headD_ne, beVal_natBytesBE, this]

private theorem unrlpBody_rlpOfBody (b : ABody) (w : b.RlpWF) (desc : List RItem) :
    (match rlpOfBody b desc with | .list items => unrlpBody items | .str _ => none) = some (b, .list desc) := by
  obtain ⟨⟨w1, w2, w3, w4, w5, w6, ⟨w7a, w7b⟩, w8, w9, w10, w11, w12, w13, w14⟩, wa, wb, wt, wc⟩ := w
  simp [rlpOfBody, unrlpBody, rU64_rNat, rBig_rNat, rArr, rBytes, rHashHeight, rNonce, *]

/-- T3 (typed RLP layer): decoding the item tree of a block gives the block back — every field, descendants recursively, for
    every fuel that covers the nesting (`Block.rlpFuel`). Hypothesis = what the Go types hold: uint64 ranges, array widths,
    amount ≥ 0 (a negative amount has no RLP form: `C13.rlp_refuses_negative_amount`). -/
theorem rlp_typed_roundtrip_block (b : Block) : b.RlpWF → ∀ f, b.rlpFuel ≤ f → unrlpBlock f (rlpOfBlock b) = some b := by
  refine Block.rec
    (motive_1 := fun b => b.RlpWF → ∀ f, b.rlpFuel ≤ f → unrlpBlock f (rlpOfBlock b) = some b)
    (motive_2 := fun ds => RlpWFList ds → ∀ f, rlpFuelList ds ≤ f → unrlpBlocks f (rlpOfBlocks ds) = some ds)
    ?_ ?_ ?_ b
  · intro body ds ih w f hf
    simp only [Block.RlpWF] at w
    simp only [Block.rlpFuel] at hf
    obtain ⟨f', rfl⟩ : ∃ f', f = f' + 1 := ⟨f - 1, by omega⟩
    have hb := unrlpBody_rlpOfBody body w.1 (rlpOfBlocks ds)
    simp only [rlpOfBlock]
    generalize hx : rlpOfBody body (rlpOfBlocks ds) = x at hb
    cases x with
    | str _ => simp at hb
    | list items =>
      simp only at hb
      simp only [unrlpBlock, hb, ih w.2 f' (by omega), Option.map_some]
  · intro _ f _
    cases f <;> simp [rlpOfBlocks, unrlpBlocks]
  · intro d ds ihd ihds w f hf
    simp only [RlpWFList] at w
    simp only [rlpFuelList] at hf
    obtain ⟨f', rfl⟩ : ∃ f', f = f' + 1 := ⟨f - 1, by omega⟩
    simp only [rlpOfBlocks, unrlpBlocks, ihd w.1 f' (by omega), ihds w.2 f' (by omega)]

/-- bytes level, `_partial`: with the generic round trip (`C13.rlp_roundtrip_partial`) the real entry point
    `rlp.DecodeBytes(rlp.EncodeToBytes(b))` returns `b`. Missing: the fuel bound `b.rlpFuel ≤ 2·len + 2` is a hypothesis (true:
    every block takes more than one byte; not proved here — on the stream the driver runs with exactly this fuel). -/
theorem rlp_typed_roundtrip_bytes_partial (b : Block) (w : b.RlpWF) (data : Bytes) (he : rlpBlock b = some data)
    (hlen : data.length < two64) (hfuel : b.rlpFuel ≤ 2 * data.length + 2) : rlpDecodeBlock data = some b := by
  unfold rlpBlock at he
  split at he
  · injection he with he
    subst he
    simp only [rlpDecodeBlock, rlpDec_rlpEnc (rlpOfBlock b) hlen]
    exact rlp_typed_roundtrip_block b w _ hfuel
  · cases he

/-- what the typed layer refuses (each is an error of go-ethereum): a uint64 with a leading zero or 9 bytes, a hash of 31
    bytes, a nonce struct with two members, a string where the descendant list belongs, a missing last member -/
theorem rlp_typed_refusals :
    rU64 (.str [0, 1]) = none ∧ rU64 (.str [1, 0, 0, 0, 0, 0, 0, 0, 0]) = none ∧ rU64 (.str []) = some 0 ∧
    rBig (.str [0]) = none ∧ rArr 32 (.str (List.replicate 31 7)) = none ∧ rArr 32 (.list []) = none ∧
    rNonce (.list [.str (List.replicate 8 1), .str []]) = none ∧
    unrlpBlock 5 (.list []) = none ∧ unrlpBlock 5 (.str []) = none := by decide

def wfBody : ABody :=
  { (default : ABody) with
    hash := List.replicate 32 0
    previousHash := List.replicate 32 0
    momentumAcknowledged := ⟨List.replicate 32 0, 0⟩
    address := List.replicate 20 0
    toAddress := List.replicate 20 0
    tokenStandard := List.replicate 10 0
    fromBlockHash := List.replicate 32 0
    nonce := List.replicate 8 0
    changesHash := List.replicate 32 0
    amount := 5 }

example : (⟨wfBody, [⟨wfBody, []⟩]⟩ : Block).RlpWF := by
  have hb : wfBody.RlpWF :=
    ⟨⟨by decide, by decide, by decide, by decide, by decide, by decide, ⟨by decide, by decide⟩, by decide, by decide,
      by decide, by decide, by decide, by decide, by decide⟩, by decide, by decide, by decide, by decide⟩
  simp only [Block.RlpWF, RlpWFList, and_true]
  exact ⟨hb, hb⟩

end ZV.C13Rlp
