import ZenonVerif.Lemmas.NodeCache
import ZenonVerif.Gen.NodeCache
import ZenonVerif.Gen.NodeState
/-
C06 — reorganisation leaves no trace, for the two stateful components that are not the versioned store
(Model/NodeCache.lean): (A) the consensus layer's database of election results and statistics points, (B) the account
pool's per-account managers under `RollbackTo`. Property theorems only; the lemmas are in Lemmas/NodeCache.lean.

Everything in (A) is proved for an ARBITRARY `Spec` (what an election, a period point and a compound point are, as
functions of the chain) — the driver evaluates the instance `countSpec` — and under the explicit hash-chaining
hypothesis `ChainWF` carried by `Reach` (a hash names one chain).
-/
namespace ZV.C06Node
open ZV ZV.NodeCache

variable {El P : Type}

/-! ## (A) consensus caches -/

/-- In every state a node can reach — any sequence of momentum inserts, rollbacks of any depth and queries at any
    time — `GetPeriodPoints().GetPoint(t)` answers, for every tick, what a computation from scratch on the node's
    CURRENT chain gives (`none` for a tick that has not started). -/
theorem points_eq_spec (S : Spec El P) (cfg : Cfg) (pf : Nat → Chain) (hlen : 0 < cfg.len) {n : Node El P}
    (hn : Reach S cfg pf n) (t : Nat) :
    (periodC S cfg n.chain n.caches t).1 = specPeriod S cfg n.chain t :=
  (periodC_ok S cfg hlen (hn.inv hlen).wf (hn.inv hlen).c t).1

/-- `points_no_trace`: … which is the answer of the node that only ever saw that chain (its momentums inserted one by
    one, oldest first, no rollback, no earlier query). -/
theorem points_no_trace (S : Spec El P) (cfg : Cfg) (pf : Nat → Chain) (hlen : 0 < cfg.len) {n : Node El P}
    (hn : Reach S cfg pf n) (t : Nat) :
    (periodC S cfg n.chain n.caches t).1 =
      (periodC S cfg (onlySaw S cfg n.chain).chain (onlySaw S cfg n.chain).caches t).1 := by
  have hf := onlySaw_reach S cfg (hn.inv hlen).wf
  rw [points_eq_spec S cfg pf hlen hn, points_eq_spec S cfg pf hlen hf, onlySaw_chain]

/-- the election (`ElectionByTick`, cache keyed by the hash of the proof momentum) -/
theorem election_eq_spec (S : Spec El P) (cfg : Cfg) (pf : Nat → Chain) (hlen : 0 < cfg.len) {n : Node El P}
    (hn : Reach S cfg pf n) (t : Nat) :
    (electTickC S cfg n.chain n.caches t).1 = specElect S cfg n.chain t :=
  (electC_ok S cfg (hn.inv hlen).c ((hn.inv hlen).wf.cut _)).1

theorem election_no_trace (S : Spec El P) (cfg : Cfg) (pf : Nat → Chain) (hlen : 0 < cfg.len) {n : Node El P}
    (hn : Reach S cfg pf n) (t : Nat) :
    (electTickC S cfg n.chain n.caches t).1 =
      (electTickC S cfg (onlySaw S cfg n.chain).chain (onlySaw S cfg n.chain).caches t).1 := by
  have hf := onlySaw_reach S cfg (hn.inv hlen).wf
  rw [election_eq_spec S cfg pf hlen hn, election_eq_spec S cfg pf hlen hf, onlySaw_chain]

/-- Epoch points (`GetEpochPoints().GetPoint(T)`, what `EpochStats` reports and the pillar contract pays from): in
    every reachable state, for every epoch — finished, running or not started — the answer is the one computed from
    scratch on the current chain. -/
theorem epoch_points_eq_spec (S : Spec El P) (cfg : Cfg) (pf : Nat → Chain) (hlen : 0 < cfg.len) {n : Node El P}
    (hn : Reach S cfg pf n) (T : Nat) :
    (epochC S cfg n.chain n.caches T).1 = specEpoch S cfg n.chain T :=
  (epochC_ok S cfg hlen (hn.inv hlen).wf (hn.inv hlen).c T).2

/-- `epoch_points_no_trace`: … which is the answer of the node that only ever saw the current chain. -/
theorem epoch_points_no_trace (S : Spec El P) (cfg : Cfg) (pf : Nat → Chain) (hlen : 0 < cfg.len) {n : Node El P}
    (hn : Reach S cfg pf n) (T : Nat) :
    (epochC S cfg n.chain n.caches T).1 =
      (epochC S cfg (onlySaw S cfg n.chain).chain (onlySaw S cfg n.chain).caches T).1 := by
  have hf := onlySaw_reach S cfg (hn.inv hlen).wf
  rw [epoch_points_eq_spec S cfg pf hlen hn, epoch_points_eq_spec S cfg pf hlen hf, onlySaw_chain]

/-- The "is the epoch still finished" test of the epoch reader is necessary (finding FX1, repaired in b4e9eef): an epoch
    point is stored once its epoch is finished, with ALL its periods merged in; a rollback to exactly the last momentum
    of that epoch makes the epoch unfinished again while the stored end hash still matches, and the reader that looks at
    the end hash alone (`epochCServeUnfinished`, the code before the repair; up to this state every call of either reader
    found an empty slot) serves the stored point — it counts the periods after the frontier, which a node that only saw
    the current chain does not. The repaired reader answers like that node and drops the stored point.
    (Spec: a period point = the number of its momentums, a compound point = the number of points merged.) -/
theorem epoch_served_while_unfinished_keeps_trace :
    let S : Spec Unit Nat := ⟨fun _ => (), fun _ ms _ => ms.length, fun ps => ps.length⟩
    let cfg : Cfg := ⟨0, 10, 2⟩
    let n := [Op.insert ⟨1, 3, 1⟩, Op.insert ⟨2, 22, 1⟩, Op.rollback 1].foldl (step S cfg) Node.fresh
    n.chain = [⟨1, 3, 1⟩] ∧ n.caches.ec 0 = some (1, 2) ∧ finished (10 * 2) n.chain 0 = false ∧
    (epochCServeUnfinished S cfg n.chain n.caches 0).1 = some 2 ∧ specEpoch S cfg n.chain 0 = some 1 ∧
    (epochC S cfg n.chain n.caches 0).1 = some 1 ∧ (epochC S cfg n.chain n.caches 0).2.ec 0 = none ∧
    (epochC S cfg n.chain (onlySaw S cfg n.chain).caches 0).1 = some 1 := by decide

/-! ### the end-hash comparison is necessary -/

namespace Witness
/-- periods of 10 s, two per epoch, genesis hash 0; branch A = a1 (tick 0, producer 1), a2 (tick 1), a3 (tick 2);
    branch B = b1 (tick 0, producer 2), b2 (tick 1), b3 (tick 2) -/
def cfg : Cfg := ⟨0, 10, 2⟩
def a1 : Mom := ⟨1, 3, 1⟩
def a2 : Mom := ⟨2, 12, 1⟩
def a3 : Mom := ⟨6, 21, 1⟩
def b1 : Mom := ⟨3, 4, 2⟩
def b2 : Mom := ⟨4, 13, 2⟩
def b3 : Mom := ⟨5, 25, 2⟩
/-- the node sees branch A (the inserts of a2 and a3 store the points of ticks 0 and 1 and of epoch 0 with A's end
    hashes), is rolled back to genesis and adopts branch B (nothing is precomputed: the counters are past these ticks);
    nobody asks for tick 0 in between -/
def ops : List Op := [.insert a1, .insert a2, .insert a3, .rollback 3, .insert b1, .insert b2, .insert b3]
def node : Node Unit CountPoint := ops.foldl (step countSpec cfg) Node.fresh
/-- the hash chaining of the two branches -/
def pf : Nat → Chain
  | 1 => [a1] | 2 => [a2, a1] | 6 => [a3, a2, a1] | 3 => [b1] | 4 => [b2, b1] | 5 => [b3, b2, b1] | _ => []
end Witness

open Witness in
/-- the history of the witness is one the theorems above speak about -/
theorem witness_reachable : Reach countSpec Witness.cfg Witness.pf Witness.node :=
  .insert b3 (.insert b2 (.insert b1 (.rollback 3 (.insert a3 (.insert a2 (.insert a1 (.init rfl) rfl) rfl) rfl)) rfl) rfl) rfl

open Witness in
/-- `points_without_endhash_check_stale`: the reader that serves a stored point without comparing its end hash once
    the NEXT tick is finished (seeded C06-3; up to this state no call of either reader met a stored point with a foreign
    end hash, so both went through the same states) answers tick 0 with the abandoned branch's producer; the real
    reader (and the computation from scratch) with the adopted branch's. The same for the epoch reader that trusts a
    stored point once its own tick is finished (seeded C02-r2-1). -/
theorem points_without_endhash_check_stale :
    node.chain = [b3, b2, b1] ∧ (node.caches.pc 0).map (·.1) = some 1 ∧
    (periodCNoCheck countSpec cfg node.chain node.caches 0).1 = some (1, [(1, 1)]) ∧
    (periodC countSpec cfg node.chain node.caches 0).1 = some (1, [(2, 1)]) ∧
    specPeriod countSpec cfg node.chain 0 = some (1, [(2, 1)]) ∧
    (node.caches.ec 0) = some (2, (2, [(1, 2)])) ∧ finished (10 * 2) node.chain 0 = true ∧
    (epochC countSpec cfg node.chain node.caches 0).1 = some (2, [(2, 2)]) := by decide

/-! ### the shape of the real readers (regenerated AST facts) -/

/-- consensus/points.go: in both `GetPoint` readers the end block is the tick's end block on the current chain and the
    stored point is the one stored under the tick; the only returns that are not error returns are `nil, nil` for a tick
    that has not started, the STORED point — in the period reader under `dbPoint != nil && !(dbPoint.EndHash !=
    endBlock.Hash)`, in the compound reader under `dbPoint != nil && !(dbPoint.EndHash != endBlock.Hash ||
    !compound.IsFinished(tick))`, nowhere else — and the freshly generated point; a stored point that fails the test is
    deleted; a generated point is stored iff the tick is finished. This is `periodC` / `epochC`. -/
theorem getpoint_compares_end_hash :
    Gen.GetPointReturns.filter (fun r => r.2.1 != "nil, err") =
      [("compoundPoints", "nil, nil", "!compound.HasStarted(tick)"),
       ("compoundPoints", "dbPoint, nil", "dbPoint != nil && !(dbPoint.EndHash != endBlock.Hash || !compound.IsFinished(tick))"),
       ("compoundPoints", "point, nil", ""),
       ("periodPoints", "nil, nil", "!period.HasStarted(tick)"),
       ("periodPoints", "dbPoint, nil", "dbPoint != nil && !(dbPoint.EndHash != endBlock.Hash)"),
       ("periodPoints", "point, nil", "")] ∧
    Gen.GetPointAssigns =
      [("compoundPoints", "endBlock := compound.GetEndBlock(tick)", ""),
       ("compoundPoints", "dbPoint := compound.db.GetPointByHeight(compound.prefix, tick)", ""),
       ("compoundPoints", "point := compound.generatePointFromLower(tick, endBlock)", ""),
       ("periodPoints", "endBlock := period.GetEndBlock(tick)", ""),
       ("periodPoints", "dbPoint := period.db.GetPointByHeight(storage.PrefixPeriodPoint, tick)", ""),
       ("periodPoints", "point := period.generatePointFromChain(tick)", "")] ∧
    Gen.GetPointDbCalls =
      [("compoundPoints", "compound.db.GetPointByHeight(compound.prefix, tick)", ""),
       ("compoundPoints", "compound.db.DeletePointByHeight(compound.prefix, tick)", "dbPoint != nil && (dbPoint.EndHash != endBlock.Hash || !compound.IsFinished(tick))"),
       ("compoundPoints", "compound.db.StorePointByHeight(compound.prefix, tick, point)", "compound.IsFinished(tick)"),
       ("periodPoints", "period.db.GetPointByHeight(storage.PrefixPeriodPoint, tick)", ""),
       ("periodPoints", "period.db.DeletePointByHeight(storage.PrefixPeriodPoint, tick)", "dbPoint != nil && dbPoint.EndHash != endBlock.Hash"),
       ("periodPoints", "period.db.StorePointByHeight(storage.PrefixPeriodPoint, tick, point)", "period.IsFinished(tick)")] := by
  decide

/-- every return of a stored point, whatever else the readers do, sits under the end-hash comparison — and, in the
    compound reader, under the test that the epoch is finished -/
theorem stored_point_only_served_under_end_hash_comparison :
    ∀ r ∈ Gen.GetPointReturns, r.2.1 ∉ ["nil, err", "nil, nil", "point, nil"] →
      r.2.1 = "dbPoint, nil" ∧
      r.2.2 = (if r.1 = "compoundPoints"
               then "dbPoint != nil && !(dbPoint.EndHash != endBlock.Hash || !compound.IsFinished(tick))"
               else "dbPoint != nil && !(dbPoint.EndHash != endBlock.Hash)") := by decide

/-- consensus/election.go `generateProducers`: looked up and stored under the hash of the proof momentum (`electC`) -/
theorem election_cache_keyed_by_proof_hash :
    Gen.ElectionAssigns =
      [("generateProducers", "hashH := types.HashHeight{Hash: proofBlock.Hash, Height: proofBlock.Height}", ""),
       ("generateProducers", "cached := em.db.GetElectionResultByHash(hashH.Hash)", ""),
       ("generateProducers", "electionData := storage.GenElectionData(producers, delegations)", "")] ∧
    Gen.ElectionDbCalls =
      [("generateProducers", "em.db.GetElectionResultByHash(hashH.Hash)", ""),
       ("generateProducers", "em.db.StoreElectionResultByHash(hashH.Hash, electionData)", "")] ∧
    Gen.ElectionReturns.filter (fun r => r.2.1 != "nil, err") =
      [("generateProducers", "cached, nil", "cached != nil"), ("generateProducers", "electionData, nil", "")] := by decide

/-- `points.InsertMomentum` precomputes the ticks from the last completed one up to the tick before the momentum's and
    never lowers its two counters; the delete events of the consensus layer do nothing (`insertMomentum`, `rollback`) -/
theorem consensus_listeners_shape :
    Gen.PointsInsertLoops =
      [("points.InsertMomentum", "for i := p.lastCompletedPeriod + 1; i < tick; i += 1", "p.periodPoints.GetPoint(uint64(i))"),
       ("points.InsertMomentum", "for i := p.lastCompletedEpoch + 1; i < epochTick; i += 1", "p.epochPoints.GetPoint(uint64(i))")] ∧
    Gen.PointsInsertAssigns =
      [" => tick := int64(p.periodPoints.ToTick(*block.Timestamp))", " => epochTick := tick / p.epochTickMultiplier",
       "p.lastCompletedPeriod < tick-1 => p.lastCompletedPeriod = tick - 1",
       "p.lastCompletedEpoch < epochTick-1 => p.lastCompletedEpoch = epochTick - 1"] ∧
    Gen.PointsDeleteMomentumStmts = [] ∧ Gen.ElectionDeleteMomentumStmts = ["return"] := by decide

/-! ## (B) account pool managers -/

open NodeCache.Pool

/-- `pool_no_trace`: after ANY sequence of reads, block additions, momentum inserts and `RollbackTo` calls of any depth —
    with reads by other goroutines interleaved anywhere inside `RollbackTo`: between a pop and the notification of the
    pool, and between the notification and the next pop — every manager the pool holds was built from the ledger AS IT
    IS NOW, and every pooled block acknowledges a momentum of the current chain. -/
theorem pool_no_trace (g : Nat) (evs : List Ev) (a : Nat) (mg : Mgr) (h : (run g evs).mgrs a = some mg) :
    mg.base = (run g evs).ledger ∧ ∀ b ∈ mg.blocks, onChain g (run g evs).ledger b.ack = true :=
  run_inv g evs a mg h

/-- right after `RollbackTo` returns, whatever the pool held before (even managers that do not satisfy the invariant) -/
theorem rollbackTo_rebuilds_pool (n : PNode) (w : List Nat × List Nat) (ws : List (List Nat × List Nat))
    (a : Nat) (mg : Mgr) (h : ((w :: ws).foldl rollbackStep n).mgrs a = some mg) :
    mg.base = ((w :: ws).foldl rollbackStep n).ledger ∧ mg.blocks = [] :=
  rollbackTo_fresh ws (rollbackStep_fresh n w) a mg h

/-- negative witness (i), seeded C14-r2-1 = C06-r2-2: the listeners are told BEFORE the pop and account 7 is read in
    between — its manager is built on the momentum that is about to be popped and stays -/
theorem notify_before_pop_leaves_stale_manager :
    let n : PNode := ⟨[⟨2, [7]⟩, ⟨1, []⟩], fun _ => none⟩
    let n' := rollbackStepNotifyFirst n ([7], [])
    n'.ledger = [⟨1, []⟩] ∧ n'.mgrs 7 = some ⟨[⟨2, [7]⟩, ⟨1, []⟩], []⟩ ∧
    (rollbackStep n ([7], [])).mgrs 7 = none := by decide

/-- negative witness (ii), seeded C01-3 = C02-3: only the managers of the accounts with blocks in the deleted momentum
    are dropped — account 7 (no block in momentum 2) keeps a pooled block that acknowledges momentum 2 -/
theorem partial_drop_leaves_block_on_deleted_momentum :
    let n := run 0 [.insert ⟨1, []⟩ [], .insert ⟨2, [5]⟩ [], .add 7 ⟨70, 2⟩, .read 5]
    let n' := rollbackStepPartial n ([], [])
    n'.ledger = [⟨1, []⟩] ∧ n'.mgrs 5 = none ∧
    n'.mgrs 7 = some ⟨[⟨2, [5]⟩, ⟨1, []⟩], [⟨70, 2⟩]⟩ ∧ onChain 0 n'.ledger 2 = false ∧
    (rollbackStep n ([], [])).mgrs 7 = none := by decide

/-- chain/momentum_pool.go `RollbackTo` (regenerated): inside the loop the ledger is popped BEFORE the listeners are
    told, each exactly once (`rollbackStep`, not `rollbackStepNotifyFirst`) -/
theorem rollback_pops_before_notifying :
    0 < Gen.RollbackToPopAt ∧ Gen.RollbackToPopAt < Gen.RollbackToNotifyAt ∧
    Gen.RollbackToPopCalls = 1 ∧ Gen.RollbackToNotifyCalls = 1 ∧
    Gen.RollbackToLoopBody =
      ["store := c.getFrontierStore()", "frontier, err := store.GetFrontierMomentum()", "if err != nil { return err }",
       "if frontier.Height == identifier.Height { break }", "detailed, err := store.PrefetchMomentum(frontier)",
       "if err != nil { return err }", "if err := c.chainManager.Pop(); err != nil { return err }",
       "c.changes.Unlock()", "c.broadcastDeleteMomentum(detailed)", "c.changes.Lock()"] := by decide

/-- chain/account_pool.go (regenerated): `DeleteMomentum` replaces the WHOLE manager map (`notify`, not
    `notifyPartial`); a missing manager is built from the ledger's current account state (`read`); the delete event
    reaches every registered listener and the pool is registered -/
theorem pool_delete_drops_every_manager :
    Gen.PoolDeleteMomentumStmts =
      ["ap.changes.Lock()", "defer ap.changes.Unlock()", "ap.managers = make(map[types.Address]db.Manager)"] ∧
    Gen.PoolGetAccountManagerStmts =
      ["manager := ap.managers[address]",
       "if manager == nil { manager = db.NewMemDBManager(ap.stable.GetStableAccountDB(address)) ap.managers[address] = manager }",
       "return manager"] ∧
    Gen.BroadcastDeleteMomentumStmts =
      ["em.changes.Lock()", "defer em.changes.Unlock()",
       "for _, listener := range em.listeners { listener.DeleteMomentum(detailed) }"] ∧
    Gen.ChainRegistersAccountPool = true := by decide

set_option maxRecDepth 100000 in
/-- chain/momentum_events.go, the listener table (regenerated): `Register` appends; `UnRegister` removes a listener only INSIDE the
    comparison `current == listener` - one that is not in the table removes nothing (seeded C06-r4-2: the removal moved behind the
    loop with index 0 as default, so `Stop()` of a module that was never started took the account pool out of the table and the pool
    was no longer told about deleted momentums); both broadcasts walk the whole table. The behaviour is examined on real nodes by the
    pool-node stream (register / unregister traffic with probes, s_poolnode_listeners.go). -/
theorem listener_table_shape :
    Gen.ListenerRegisterStmts =
      ["em.changes.Lock()", "defer em.changes.Unlock()", "em.listeners = append(em.listeners, listener)"] ∧
    Gen.ListenerUnRegisterStmts =
      ["em.changes.Lock()", "defer em.changes.Unlock()",
       "for index, current := range em.listeners { if current == listener { em.listeners = append(em.listeners[:index], em.listeners[index+1:]...) break } }"] ∧
    Gen.BroadcastInsertMomentumStmts =
      ["em.changes.Lock()", "defer em.changes.Unlock()",
       "for _, listener := range em.listeners { listener.InsertMomentum(detailed) }"] := by decide

/-! ### what a node remembers besides its ledger (regenerated from the AST: Gen/NodeState.lean)

A reorganisation replaces the ledger. Whatever else the node keeps about the chain it was on must be keyed by something that names
ONE chain (a hash), be re-validated against the current chain when it is read, or be dropped when a momentum is deleted — otherwise it
answers for the abandoned branch (seeded C06-r3-1: elections remembered by tick NUMBER; C06-r3-2: ledger views remembered by
identifier and never told about a rollback; C17-r3-2: enforcement heights remembered by spork id). The three lists below are the
complete inventory of such state in consensus, consensus/storage, chain (and the containers of chain/account, chain/momentum); a new
container, a new field of a long-lived object or a new key expression changes the generated list and these theorems fail until the
inventory is reviewed again. -/

/-- reviewed inventory of containers:
    * `accountPool.managers` (by address): replaced as a whole by `DeleteMomentum` (`pool_delete_drops_every_manager`, `pool_no_trace`);
    * `DB.electionCache` (by PROOF HASH, `election_cache_keyed_by_proof_hash`): a hash names one chain (`ChainWF`);
    * `DB.pointCache` (by point type and TICK): every reader compares the stored end hash with the end block of the tick on the
      current chain and, for epoch points, that the epoch is finished (`getpoint_compares_end_hash`, `stored_point_only_served_under_end_hash_comparison`);
    * `Point.Pillars`: content of a point value (built per call or decoded from the database), not node state. -/
def reviewedNodeStateHolders : List String := [
  "chain/account_pool.go:accountPool.managers:map[types.Address]db.Manager",
  "consensus/storage/db.go:DB.electionCache:*lru.Cache",
  "consensus/storage/db.go:DB.pointCache:[]*lru.Cache",
  "consensus/storage/point.go:Point.Pillars:map[string]*ProducerDetail"]

set_option maxRecDepth 100000 in
theorem node_state_holders_reviewed : Gen.nodeStateHolders = reviewedNodeStateHolders := by decide

/-- reviewed inventory of the fields of every struct type of consensus, consensus/storage and chain. Chain-derived state outside the
    containers above: `points.lastCompletedPeriod` / `lastCompletedEpoch` (never rolled back: they only decide which points
    `InsertMomentum` PRE-computes; a point is judged by its end hash when read — `Model.NodeCache` carries them), and the listener
    lists. Nothing else is remembered between calls: elections, delegations, producers and statistics are values built per call from
    the chain or from the two keyed caches. -/
def reviewedNodeStructFields : List String := [
  "chain/account_pool.go:accountPool.changes:sync.Mutex",
  "chain/account_pool.go:accountPool.log:log15.Logger",
  "chain/account_pool.go:accountPool.managers:map[types.Address]db.Manager",
  "chain/account_pool.go:accountPool.stable:Stable",
  "chain/chain.go:chain.(embedded):*accountPool",
  "chain/chain.go:chain.(embedded):*momentumEventManager",
  "chain/chain.go:chain.(embedded):*momentumPool",
  "chain/chain.go:chain.(embedded):store.Genesis",
  "chain/chain.go:chain.chainManager:db.Manager",
  "chain/chain.go:chain.insert:sync.Mutex",
  "chain/chain.go:chain.log:common.Logger",
  "chain/chain.go:inserter.mutex:*sync.Mutex",
  "chain/chain.go:inserter.reason:string",
  "chain/momentum_events.go:momentumEventManager.changes:sync.Mutex",
  "chain/momentum_events.go:momentumEventManager.listeners:[]MomentumEventListener",
  "chain/momentum_pool.go:momentumPool.(embedded):*momentumEventManager",
  "chain/momentum_pool.go:momentumPool.chainManager:db.Manager",
  "chain/momentum_pool.go:momentumPool.changes:sync.Mutex",
  "chain/momentum_pool.go:momentumPool.genesis:store.Genesis",
  "chain/momentum_pool.go:momentumPool.log:log15.Logger",
  "consensus/api.go:API.er:ElectionReader",
  "consensus/api.go:API.momentumStore:store.Momentum",
  "consensus/api.go:API.points:Points",
  "consensus/chain_ticker.go:chainTicker.(embedded):chain.Chain",
  "consensus/chain_ticker.go:chainTicker.(embedded):common.Ticker",
  "consensus/consensus.go:consensus.(embedded):*eventManager",
  "consensus/consensus.go:consensus.chain:chain.Chain",
  "consensus/consensus.go:consensus.closed:chan struct{}",
  "consensus/consensus.go:consensus.electionManager:*electionManager",
  "consensus/consensus.go:consensus.genesis:time.Time",
  "consensus/consensus.go:consensus.log:common.Logger",
  "consensus/consensus.go:consensus.points:Points",
  "consensus/consensus.go:consensus.testing:bool",
  "consensus/consensus.go:consensus.wg:sync.WaitGroup",
  "consensus/context.go:Context.(embedded):common.Ticker",
  "consensus/context.go:Context.(embedded):constants.Consensus",
  "consensus/context.go:Context.GenesisTime:time.Time",
  "consensus/election.go:electionManager.(embedded):Context",
  "consensus/election.go:electionManager.algo:ElectionAlgorithm",
  "consensus/election.go:electionManager.chain:chain.Chain",
  "consensus/election.go:electionManager.db:*storage.DB",
  "consensus/election.go:electionManager.log:common.Logger",
  "consensus/election.go:electionResult.Delegations:[]*types.PillarDelegation",
  "consensus/election.go:electionResult.ETime:time.Time",
  "consensus/election.go:electionResult.Producers:[]*ProducerEvent",
  "consensus/election.go:electionResult.STime:time.Time",
  "consensus/election.go:electionResult.Tick:uint64",
  "consensus/election_algorithm.go:AlgorithmConfig.delegations:[]*types.PillarDelegation",
  "consensus/election_algorithm.go:AlgorithmConfig.hashH:*types.HashHeight",
  "consensus/election_algorithm.go:electionAlgorithm.group:*Context",
  "consensus/events.go:eventManager.changes:sync.Mutex",
  "consensus/events.go:eventManager.listeners:[]EventListener",
  "consensus/interfaces.go:ProducerEvent.EndTime:time.Time",
  "consensus/interfaces.go:ProducerEvent.Name:string",
  "consensus/interfaces.go:ProducerEvent.Producer:types.Address",
  "consensus/interfaces.go:ProducerEvent.StartTime:time.Time",
  "consensus/points.go:compoundPoints.(embedded):ChainTicker",
  "consensus/points.go:compoundPoints.db:*storage.DB",
  "consensus/points.go:compoundPoints.log:common.Logger",
  "consensus/points.go:compoundPoints.lower:PointsReader",
  "consensus/points.go:compoundPoints.lowerMultiplier:uint64",
  "consensus/points.go:compoundPoints.prefix:byte",
  "consensus/points.go:periodPoints.(embedded):ChainTicker",
  "consensus/points.go:periodPoints.db:*storage.DB",
  "consensus/points.go:periodPoints.electionReader:ElectionReader",
  "consensus/points.go:periodPoints.log:common.Logger",
  "consensus/points.go:points.epochPoints:PointsReader",
  "consensus/points.go:points.epochTickMultiplier:int64",
  "consensus/points.go:points.lastCompletedEpoch:int64",
  "consensus/points.go:points.lastCompletedPeriod:int64",
  "consensus/points.go:points.log:common.Logger",
  "consensus/points.go:points.periodPoints:PointsReader",
  "consensus/storage/db.go:DB.db:db.DB",
  "consensus/storage/db.go:DB.electionCache:*lru.Cache",
  "consensus/storage/db.go:DB.pointCache:[]*lru.Cache",
  "consensus/storage/election_data.go:ElectionData.Delegations:[]*types.PillarDelegation",
  "consensus/storage/election_data.go:ElectionData.Producers:[]types.Address",
  "consensus/storage/point.go:Point.EndHash:types.Hash",
  "consensus/storage/point.go:Point.Pillars:map[string]*ProducerDetail",
  "consensus/storage/point.go:Point.PrevHash:types.Hash",
  "consensus/storage/point.go:Point.TotalWeight:*big.Int",
  "consensus/storage/point.go:ProducerDetail.ExpectedNum:uint32",
  "consensus/storage/point.go:ProducerDetail.FactualNum:uint32",
  "consensus/storage/point.go:ProducerDetail.Weight:*big.Int"]

set_option maxRecDepth 100000 in
theorem node_struct_fields_reviewed : Gen.nodeStructFields = reviewedNodeStructFields := by decide

/-- reviewed accesses to the containers, with their key expressions: the election cache is read and written under `hash` (the proof
    block's hash) only, the point caches under `[prefix]` and `height` (= tick; guarded by the end-hash comparison of the readers),
    the pool's managers under `address` and replaced as a whole in `DeleteMomentum`. -/
def reviewedNodeStateAccesses : List String := [
  "chain/account_pool.go:accountPool.DeleteMomentum:managers = make(map[types.Address]db.Manager)",
  "chain/account_pool.go:accountPool.GetAllUncommittedAccountBlocks:range managers",
  "chain/account_pool.go:accountPool.getAccountManager:managers[address]",
  "chain/account_pool.go:accountPool.getAccountManager:managers[address]",
  "chain/account_pool.go:accountPool.getAccountManager:managers[address] = manager",
  "chain/account_pool.go:accountPool.rebuild:delete(managers, address)",
  "chain/account_pool.go:accountPool.rebuild:len(managers, )",
  "chain/account_pool.go:accountPool.rebuild:managers[address]",
  "chain/account_pool.go:accountPool.rebuild:managers[address]",
  "chain/account_pool.go:accountPool.rebuild:managers[address] = manager",
  "chain/account_pool.go:accountPool.rebuild:range managers",
  "chain/account_pool.go:newAccountPool:managers: make(map[types.Address]db.Manager)",
  "consensus/api.go:API.EpochStats:Pillars: make(map[string]*api.EpochPillarStats)",
  "consensus/api.go:API.EpochStats:Pillars[pillarName]",
  "consensus/api.go:API.EpochStats:Pillars[pillarName] = &api.EpochPillarStats{ Epoch: epoch, BlockNum: uint64(v.FactualNum), ExceptedBlockNum: uint64(v.ExpectedNum), Weight: v.Weight, Name: pillarName}",
  "consensus/api.go:API.EpochStats:range Pillars",
  "consensus/api.go:API.GetPillarWeights:range Pillars",
  "consensus/points.go:compoundPoints.generatePointFromLower:range Pillars",
  "consensus/points.go:periodPoints.generatePointFromChain:Pillars[delegation.Name]",
  "consensus/points.go:periodPoints.generatePointFromChain:Pillars[delegation.Name]",
  "consensus/points.go:periodPoints.generatePointFromChain:Pillars[delegation.Name] = &storage.ProducerDetail{ExpectedNum: 0, FactualNum: 0, Weight: big.NewInt(0).Set(delegation.Weight)}",
  "consensus/points.go:periodPoints.generatePointFromChain:Pillars[nameLookup[v.Producer()]]",
  "consensus/points.go:periodPoints.generatePointFromChain:Pillars[nameLookup[v.Producer()]]",
  "consensus/points.go:periodPoints.generatePointFromChain:Pillars[nameLookup[v.Producer()]] = &storage.ProducerDetail{ExpectedNum: 0, FactualNum: 1, Weight: big.NewInt(0)}",
  "consensus/points.go:periodPoints.generatePointFromChain:Pillars[v.Name]",
  "consensus/points.go:periodPoints.generatePointFromChain:Pillars[v.Name]",
  "consensus/points.go:periodPoints.generatePointFromChain:Pillars[v.Name] = &storage.ProducerDetail{ExpectedNum: 1, FactualNum: 0, Weight: big.NewInt(0)}",
  "consensus/storage/db.go:DB.DeletePointByHeight:pointCache[prefix]",
  "consensus/storage/db.go:DB.DeletePointByHeight:pointCache[prefix].Remove(height)",
  "consensus/storage/db.go:DB.GetElectionResultByHash:electionCache.Add(hash)",
  "consensus/storage/db.go:DB.GetElectionResultByHash:electionCache.Get(hash)",
  "consensus/storage/db.go:DB.GetPointByHeight:pointCache[prefix]",
  "consensus/storage/db.go:DB.GetPointByHeight:pointCache[prefix]",
  "consensus/storage/db.go:DB.GetPointByHeight:pointCache[prefix].Add(height)",
  "consensus/storage/db.go:DB.GetPointByHeight:pointCache[prefix].Get(height)",
  "consensus/storage/db.go:DB.StoreElectionResultByHash:electionCache.Add(hash)",
  "consensus/storage/db.go:DB.StorePointByHeight:pointCache[prefix]",
  "consensus/storage/db.go:DB.StorePointByHeight:pointCache[prefix].Add(height)",
  "consensus/storage/db.go:NewConsensusDB:electionCache: electionCache",
  "consensus/storage/db.go:NewConsensusDB:pointCache: pointCache",
  "consensus/storage/point.go:NewEmptyPoint:Pillars: make(map[string]*ProducerDetail)",
  "consensus/storage/point.go:Point.LeftAppend:Pillars[k]",
  "consensus/storage/point.go:Point.LeftAppend:Pillars[k]",
  "consensus/storage/point.go:Point.LeftAppend:Pillars[k] = v.Copy()",
  "consensus/storage/point.go:Point.LeftAppend:range Pillars",
  "consensus/storage/point.go:Point.Marshal:len(Pillars, )",
  "consensus/storage/point.go:Point.Marshal:len(Pillars, )",
  "consensus/storage/point.go:Point.Marshal:range Pillars",
  "consensus/storage/point.go:Point.Unmarshal:Pillars = make(map[string]*ProducerDetail, len(pb.Content))",
  "consensus/storage/point.go:Point.Unmarshal:Pillars[v.Name]",
  "consensus/storage/point.go:Point.Unmarshal:Pillars[v.Name] = &ProducerDetail{ExpectedNum: v.ExpectedNum, FactualNum: v.FactualNum, Weight: big.NewInt(0).SetBytes(v.Weight)}"]

set_option maxRecDepth 100000 in
theorem node_state_accesses_reviewed : Gen.nodeStateAccesses = reviewedNodeStateAccesses := by decide

/-! ### the hypotheses are met -/

/-- a three-momentum chain with its hash chaining, and a node that went through a fork on it -/
example : ∃ (pf : Nat → Chain) (n : Node Unit CountPoint), Reach countSpec Witness.cfg pf n ∧ 0 < Witness.cfg.len ∧
    n.chain = [Witness.b3, Witness.b2, Witness.b1] ∧ ChainWF pf Witness.cfg.g n.chain ∧
    finished (10 * 2) n.chain 0 = true ∧ (n.caches.pc 0).isSome = true :=
  ⟨Witness.pf, Witness.node, witness_reachable, by decide, by decide, ⟨rfl, rfl, rfl, rfl⟩, by decide, by decide⟩

/-- `pool_no_trace` speaks about pools that do hold managers after a rollback with interleaved reads -/
example : ((run 0 [.insert ⟨1, []⟩ [], .insert ⟨2, [5]⟩ [], .add 7 ⟨70, 2⟩,
    .rollbackTo [([7, 5], [5])], .add 7 ⟨71, 1⟩]).mgrs 7) = some ⟨[⟨1, []⟩], [⟨71, 1⟩]⟩ := by decide

end ZV.C06Node
