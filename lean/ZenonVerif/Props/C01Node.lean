import ZenonVerif.Props.C04Node
import ZenonVerif.Props.C01
/-
C01, node level: the supply equality "at every point of every chain a node accepts" — at every momentum height the node
ever shows, after every reorganisation and restart, and at every unconfirmed-pool state. The node is
`Model/LedgerNode.lean`; every theorem quantifies over all operation lists (blocks into the pool at any pool height,
momentums with any content, rollbacks to any height, restarts). `g` is the genesis version of the ledger database.
-/
namespace ZV.C01Node
open ZV.Ledger ZV.LedgerNode ZV.C04Node

/-- the supply equality holds for the confirmed ledger after any reorganisation (rollback to any height of any reachable
    node) and whatever the node does afterwards -/
theorem conservation_across_reorg (g : Store) (hg : g.led.gate = true) (hw : WF g.led) (hc : Conserved g.led)
    (ops : List Op) (h : Nat) (ops2 : List Op) :
    WF (after g ops h ops2).frontier.led ∧ Conserved (after g ops h ops2).frontier.led :=
  C01.conservation _ _ hg hw hc (confirmed_reachable g ops h ops2)

/-- the confirmed ledger right after a rollback to `h` is the ledger of the first `h` momentums alone, and conserved -/
theorem conservation_at_every_height (g : Store) (hg : g.led.gate = true) (hw : WF g.led) (hc : Conserved g.led)
    (ops : List Op) (h : Nat) (hh : h ≤ ((Node.genesis g).run ops).chain.length) :
    ∃ st, replay g (((Node.genesis g).run ops).moms.take h) = .ok st ∧ Conserved st.led :=
  ⟨_, (reach_closed_under_rollback g ops h hh).1,
   (C01.conservation _ _ hg hw hc (reach_closed_under_rollback g ops h hh).2).2⟩

/-- the supply equality holds at every unconfirmed-pool state: for the ledger seen through the pool (confirmed + all
    pooled blocks), in every reachable node -/
theorem conservation_at_pool_states (g : Store) (hg : g.led.gate = true) (hw : WF g.led) (hc : Conserved g.led)
    (ops : List Op) (h : Nat) (ops2 : List Op) :
    WF (after g ops h ops2).poolView.led ∧ Conserved (after g ops h ops2).poolView.led :=
  C01.conservation _ _ hg hw hc (pool_view_reachable g ops h ops2).1

/-- supply ≤ maximum supply for every token, in the confirmed ledger and in the pool view, across reorganisations -/
theorem supply_le_max_across_reorg (g : Store) (hs : SupplyLeMax g.led) (hcalls : CallsOk g.led)
    (ops : List Op) (h : Nat) (ops2 : List Op) (t : Tok) (i : TokInfo) :
    (getTok (after g ops h ops2).frontier.led.toks t = some i → i.supply ≤ i.max) ∧
    (getTok (after g ops h ops2).poolView.led.toks t = some i → i.supply ≤ i.max) :=
  ⟨C01.supply_le_max _ _ hs hcalls (confirmed_reachable g ops h ops2) t i,
   C01.supply_le_max _ _ hs hcalls (pool_view_reachable g ops h ops2).1 t i⟩

/-- restart keeps every balance, every in-flight send and every token record: the confirmed ledger is untouched -/
theorem restart_keeps_ledger (n : Node) : n.restart.frontier.led = n.frontier.led := rfl

/-! ## non-vacuity -/

example : WF demoGen.led ∧ Conserved demoGen.led ∧ SupplyLeMax demoGen.led ∧ CallsOk demoGen.led := by
  refine ⟨by decide, ?_, ?_, ?_⟩
  · intro t _
    simp only [demoGen, supplyOf, supplyOfL, getTok, sumBal, sumBalL, inflightSum, State.unreceived]
    by_cases h1 : t = 1
    · subst h1; decide
    · have : (1 == t) = false := by simpa using fun h => h1 h.symm
      simp [Ne.symm h1]
  · intro t i h
    simp only [demoGen, getTok] at h
    split at h
    · cases h; decide
    · cases h
  · intro x hx; simp [demoGen] at hx

/-- the demo history with the reorganisation: totals of token 1 in the confirmed ledger after the rollback to 3, and in
    the pool view with one pooled send on top — 100 = balances + in flight in both -/
example : sumBal (after demoGen demoOps 3 []).frontier.led 1 + inflightSum (after demoGen demoOps 3 []).frontier.led 1 = 100 ∧
    sumBal (after demoGen demoOps 3 [.put 0 (.usend 17 16 1 4 105 .none)]).poolView.led 1 = 93 ∧
    inflightSum (after demoGen demoOps 3 [.put 0 (.usend 17 16 1 4 105 .none)]).poolView.led 1 = 7 := by decide

end ZV.C01Node
