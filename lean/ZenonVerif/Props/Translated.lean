import ZenonVerif.Gen.Translated
import ZenonVerif.Lemmas.GoSem
import ZenonVerif.Model.Rpc
import ZenonVerif.Model.Pool
import ZenonVerif.Model.Pow
import ZenonVerif.Model.Proto
import ZenonVerif.Model.Consensus
import ZenonVerif.Model.Rewards
import ZenonVerif.Model.RewardEpoch
import ZenonVerif.Model.EpochCursor
import ZenonVerif.Model.Sync
import ZenonVerif.Model.Verify
import ZenonVerif.Props.C18
import ZenonVerif.Props.C14
/-
L12 — the TRANSLATED definitions (Gen/Translated.lean, regenerated from the Go text of /repo on every run by
harness/cmd/zvh/f_translate.go) refine the hand-written models. Every `…_translation_refines_model` theorem is re-checked
against what the code says NOW: an edit of the Go function that changes its input/output behaviour breaks the theorem, a
behaviour-preserving rewrite inside the subset does not have to. A function that leaves the translated subset turns into
`<name>_UNTRANSLATABLE` and the theorem about `<name>` no longer elaborates.
The `…_translated_…` corollaries restate key property clauses directly on the code's own text.
-/
namespace ZV.Translated
open ZV ZV.Gen ZV.Go

/-- nothing was refused by the translator -/
theorem all_translated : Translated.untranslatableNames = [] := by decide

/-! ### C18 — `api.GetRange` -/

theorem GetRange_translation_refines_model (i c n : BitVec 32) :
    ((Translated.GetRange i c n).1.toNat, (Translated.GetRange i c n).2.toNat)
      = Rpc.getRange i.toNat c.toNat n.toNat := by
  have hm := mul32_lt i.toNat c.toNat i.isLt c.isLt
  have hc := c.isLt
  have hn := n.isLt
  unfold Translated.GetRange Rpc.getRange
  simp only [ge_iff_le, gt_iff_lt, BitVec.le_def, BitVec.lt_def, BitVec.toNat_mul, BitVec.toNat_add, BitVec.toNat_setWidth,
    decide_eq_true_eq]
  generalize hp : i.toNat * c.toNat = p at *
  have e1 : i.toNat % 2 ^ 64 = i.toNat := Nat.mod_eq_of_lt (by omega)
  have e2 : c.toNat % 2 ^ 64 = c.toNat := Nat.mod_eq_of_lt (by omega)
  have e3 : n.toNat % 2 ^ 64 = n.toNat := Nat.mod_eq_of_lt (by omega)
  simp only [e1, e2, e3, hp]
  have e4 : p % 2 ^ 64 = p := Nat.mod_eq_of_lt (by omega)
  have e5 : (p + c.toNat) % 2 ^ 64 = p + c.toNat := Nat.mod_eq_of_lt (by omega)
  simp only [e4, e5]
  (repeat' split) <;> simp_all [BitVec.toNat_setWidth] <;> omega

/-! ### C14 — `chain.higherPriority` -/

/-- embedding of the model's outcome type into the translated `error` -/
def prioErr : Pool.Prio → Option String
  | .ok => none | .ratioWorse => some "ErrPlasmaRatioIsWorse" | .hashTieBreak => some "ErrHashTieBreak"

theorem higherPriority_translation_refines_model (a b : Pool.Blk)
    (ha : a.total < two64) (hab : a.base < two64) (hb : b.total < two64) (hbb : b.base < two64) :
    Translated.higherPriority (BitVec.ofNat 64 a.base) a.hash (BitVec.ofNat 64 a.total)
        (BitVec.ofNat 64 b.base) b.hash (BitVec.ofNat 64 b.total)
      = prioErr (Pool.higherPriority a b) := by
  unfold Translated.higherPriority Pool.higherPriority
  simp only [two64] at *
  simp only [bytesCompare_gt_m1, BitVec.lt_def, BitVec.toNat_mul, BitVec.toNat_ofNat, beq_iff_eq, ← BitVec.toNat_inj,
    decide_eq_true_eq, Bool.and_eq_true, Nat.reducePow, Nat.mod_eq_of_lt ha, Nat.mod_eq_of_lt hab, Nat.mod_eq_of_lt hb,
    Nat.mod_eq_of_lt hbb]
  by_cases h1 : a.total * b.base % 18446744073709551616 < b.total * a.base % 18446744073709551616 <;>
  by_cases h2 : a.total * b.base % 18446744073709551616 = b.total * a.base % 18446744073709551616 <;>
  cases hlt : bytesLt a.hash b.hash <;> simp [h1, h2, prioErr] <;> omega

example : ∃ a b : Pool.Blk, a.total < two64 ∧ a.base < two64 ∧ b.total < two64 ∧ b.base < two64 :=
  ⟨⟨1, [1], [0], 5, 7, 0⟩, ⟨1, [2], [0], 5, 7, 0⟩, by decide⟩

/-! ### C12 — plasma arithmetic and the PoW target -/

theorem DifficultyToPlasma_translation_refines_model (d : BitVec 64) :
    (Translated.DifficultyToPlasma d).toNat = Pow.difficultyToPlasma d.toNat := by
  unfold Translated.DifficultyToPlasma Pow.difficultyToPlasma
  simp only [Gen.MaxDifficultyForAccountBlock, Gen.MaxPoWPlasmaForAccountBlock, Gen.PoWDifficultyPerPlasma,
    beq_iff_eq, decide_eq_true_eq, gt_iff_lt, BitVec.lt_def, BitVec.toNat_eq, BitVec.toNat_ofNat]
  (repeat' split) <;> simp_all [BitVec.toNat_udiv] <;> omega

theorem GetDifficultyForPlasma_translation_refines_model (p : BitVec 64) :
    Translated.GetDifficultyForPlasma p = (match Pow.difficultyForPlasma p.toNat with
      | none => (0#64, some "ErrForbiddenParam")
      | some v => (BitVec.ofNat 64 v, none)) := by
  unfold Translated.GetDifficultyForPlasma Pow.difficultyForPlasma
  simp only [Gen.MaxPoWPlasmaForAccountBlock, Gen.PoWDifficultyPerPlasma, two64,
    beq_iff_eq, decide_eq_true_eq, gt_iff_lt, BitVec.lt_def, BitVec.toNat_eq, BitVec.toNat_ofNat]
  (repeat' split) <;> simp_all <;> (try omega)
  all_goals (apply BitVec.eq_of_toNat_eq; simp [BitVec.toNat_mul]; omega)

theorem FussedAmountToPlasma_translation_refines_model (a : Int) :
    Translated.FussedAmountToPlasma (some a) = .ok (BitVec.ofNat 64 (Pow.fusedAmountToPlasma a)) := by
  have key : Translated.FussedAmountToPlasma (some a) = if a ≤ 0 then .ok 0#64
      else if 500000000000 ≤ a then .ok 10500000#64 else .ok (bigUint64 a / 100000000#64 * 2100#64) := by
    unfold Translated.FussedAmountToPlasma
    simp only [Option.isNone_some, Option.getD_some, Bool.not_false, Bool.and_false, Bool.false_or, Bool.false_eq_true,
      if_false, bigSign_le0, bigCmp_ge0, decide_eq_true_eq, Translated.vm_constants_MaxFussedAmountForAccountBig_init]
  have hM : ((Gen.MaxFussedAmountForAccountBig : Nat) : Int) = 500000000000 := by decide
  rw [key]; unfold Pow.fusedAmountToPlasma
  by_cases h1 : a ≤ 0
  · rw [if_pos h1, if_pos h1]
  · rw [if_neg h1, if_neg h1]
    by_cases h2 : (500000000000 : Int) ≤ a
    · rw [if_pos h2, if_pos (by omega)]; simp [Gen.MaxFusionPlasmaForAccount]
    · rw [if_neg h2, if_neg (by omega)]
      refine congrArg Res.ok (BitVec.eq_of_toNat_eq ?_)
      have hn : a.natAbs = a.toNat := by omega
      simp only [bigUint64, hn, BitVec.toNat_mul, BitVec.toNat_udiv, BitVec.toNat_ofNat, Nat.reducePow, Nat.reduceMod,
        Gen.CostPerFusionUnit, Gen.PlasmaPerFusionUnit, two64]

theorem FussedAmountToPlasma_nil : Translated.FussedAmountToPlasma none = .ok 0#64 := by decide

theorem getHashes_cap_translation_refines_model (amount : BitVec 64) :
    Translated.getHashes_cap amount = .ok (BitVec.ofNat 64 (Proto.capHash amount.toNat)) := by
  unfold Translated.getHashes_cap Proto.capHash
  simp only [Translated.protocol_downloader_MaxHashFetch_init, Gen.MaxHashFetch, gt_iff_lt, BitVec.lt_def,
    decide_eq_true_eq, BitVec.toNat_ofNat]
  (repeat' split) <;> simp_all <;> omega

theorem fromNumber_cap_translation_refines_model (amount : BitVec 64) :
    Translated.fromNumber_cap amount = .ok (BitVec.ofNat 64 (Proto.capHash amount.toNat)) := by
  unfold Translated.fromNumber_cap Proto.capHash
  simp only [Translated.protocol_downloader_MaxHashFetch_init, Gen.MaxHashFetch, gt_iff_lt, BitVec.lt_def,
    decide_eq_true_eq, BitVec.toNat_ofNat]
  (repeat' split) <;> simp_all <;> omega

theorem fromNumber_lastNumber_translation_refines_model (number amount : BitVec 64) :
    (Translated.fromNumber_lastNumber number amount).toNat
      = Proto.sub64 (Proto.u64 (number.toNat + amount.toNat)) 1 := by
  unfold Translated.fromNumber_lastNumber Proto.sub64 Proto.u64
  simp only [two64]
  by_cases h : 1 ≤ (number.toNat + amount.toNat) % 18446744073709551616 <;> simp only [h, if_true, if_false] <;> bv_omega

theorem fromNumber_available_translation_refines_model (lastHeight number amount : BitVec 64) :
    Translated.fromNumber_available lastHeight number amount
      = .ok (BitVec.ofNat 64 (let available := Proto.u64 (Proto.sub64 lastHeight.toNat number.toNat + 1)
                               if available < amount.toNat then available else amount.toNat)) := by
  unfold Translated.fromNumber_available Proto.sub64 Proto.u64
  simp only [two64, BitVec.lt_def, decide_eq_true_eq]
  (repeat' split) <;> congr 1 <;> bv_omega

theorem fromNumber_beyond_translation_refines_model (lastHeight number : BitVec 64) :
    Translated.fromNumber_beyond lastHeight number
      = if lastHeight.toNat < number.toNat then .exit 0 else .ok () := by
  unfold Translated.fromNumber_beyond
  simp only [BitVec.lt_def, decide_eq_true_eq]

theorem getTargetByDifficulty_translation_refines_model (d : BitVec 64) :
    Translated.getTargetByDifficulty d = .ok (Pow.targetBytes d.toNat) := by
  unfold Translated.getTargetByDifficulty Pow.targetBytes Pow.target
  by_cases h0 : d = 0#64
  · subst h0; simp [zero8_eq]
  · have hd : 0 < d.toNat := by
      rcases Nat.eq_zero_or_pos d.toNat with h | h
      · exact absurd (BitVec.eq_of_toNat_eq (by simpa using h)) h0
      · exact h
    have hne : d.toNat ≠ 0 := by omega
    have hq : two64 / d.toNat ≤ two64 := Nat.div_le_self _ _
    have e : Go.bigExp Translated.common_Big2_init Translated.common_Big64_init = ((two64 : Nat) : Int) := by decide
    have hz : (Go.bigOfU64 d == 0) = false := by simp [bigOfU64]; omega
    simp only [beq_iff_eq, h0, if_false, hne, e, hz, Bool.false_eq_true, le8_eq]
    refine congrArg Res.ok (congrArg (leBytes 8) ?_)
    simp only [bigOfU64, bigQuo, tdiv_nat, bigUint64, BitVec.toNat_ofNat]
    have : ((two64 : Nat) : Int) - ((two64 / d.toNat : Nat) : Int) = ((two64 - two64 / d.toNat : Nat) : Int) := by omega
    rw [this, Int.natAbs_natCast]
    simp [two64]

theorem GetThresholdByDifficulty_translation_refines_model (d : Nat) (hd : 0 < d) :
    Translated.GetThresholdByDifficulty (some (d : Int)) = .ok (BitVec.ofNat 64 (Pow.target d)) := by
  unfold Translated.GetThresholdByDifficulty Pow.target
  have hne : d ≠ 0 := by omega
  have hq : two64 / d ≤ two64 := Nat.div_le_self _ _
  have e : Go.bigExp (2 : Int) (64 : Int) = ((two64 : Nat) : Int) := by decide
  have hz : (((d : Int)) == 0) = false := by simp; omega
  simp only [Option.isNone_some, Option.getD_some, Bool.not_false, if_true, Bool.false_or, e, hz, Bool.false_eq_true,
    if_false, hne]
  refine congrArg Res.ok ?_
  simp only [bigQuo, tdiv_nat, bigUint64]
  have : ((two64 : Nat) : Int) - ((two64 / d : Nat) : Int) = ((two64 - two64 / d : Nat) : Int) := by omega
  rw [this, Int.natAbs_natCast]
  apply BitVec.eq_of_toNat_eq
  simp [two64]

theorem GetThresholdByDifficulty_panics : Translated.GetThresholdByDifficulty none = .panic ∧
    Translated.GetThresholdByDifficulty (some 0) = .panic := by decide

/-- `ticker.ToTick`, integer part: the two float→integer conversions are inputs -/
theorem ToTick_translation_refines_model (subSec iv : BitVec 64) :
    Translated.ToTick subSec iv = (if iv.toNat = 0 then .panic else .ok (BitVec.ofNat 64 (subSec.toNat / iv.toNat))) := by
  unfold Translated.ToTick
  by_cases h : iv = 0#64
  · subst h; simp
  · have : iv.toNat ≠ 0 := fun hh => h (BitVec.eq_of_toNat_eq (by simpa using hh))
    simp only [beq_iff_eq, h, if_false, this]
    refine congrArg Res.ok (BitVec.eq_of_toNat_eq ?_)
    have := Nat.div_le_self subSec.toNat iv.toNat
    have hs := subSec.isLt
    have hlt : subSec.toNat / iv.toNat < 2 ^ 64 := by omega
    simp only [BitVec.toNat_udiv, BitVec.toNat_ofNat, Nat.mod_eq_of_lt hlt]

theorem MinInt64_translation_refines_model (x y : BitVec 64) :
    (Translated.MinInt64 x y).toInt = min x.toInt y.toInt := by
  unfold Translated.MinInt64; simp only [decide_eq_true_eq]; split <;> omega

theorem MaxInt64_translation_refines_model (x y : BitVec 64) :
    (Translated.MaxInt64 x y).toInt = max x.toInt y.toInt := by
  unfold Translated.MaxInt64; simp only [decide_eq_true_eq]; split <;> omega

theorem getWeightedStake_translation_refines_model (revoke start : BitVec 64) (w : Int) (s e : BitVec 64) :
    Translated.getWeightedStake revoke start w s e
      = Rewards.weightedStake start.toInt revoke.toInt w s.toInt e.toInt := by
  unfold Translated.getWeightedStake Rewards.weightedStake
  have h0 : (revoke != 0#64) = true ↔ revoke.toInt ≠ 0 := by
    simp only [bne_iff_ne, ne_eq, ← BitVec.toInt_inj]; rfl
  simp only [h0, decide_eq_true_eq, bigOfI64, toInt_sub_wrap, MinInt64_translation_refines_model,
    MaxInt64_translation_refines_model, ge_iff_le]
  (repeat' split) <;> simp_all <;> omega

theorem momentumsPage_eq_accountBlocksPage : Translated.momentumsPage = Translated.accountBlocksPage := rfl

theorem getWeightedSentinel_translation_refines_model (reg revoke s e : BitVec 64) :
    Translated.getWeightedSentinel reg revoke s e
      = Rewards.weightedSentinel reg.toInt revoke.toInt s.toInt e.toInt := by
  unfold Translated.getWeightedSentinel Rewards.weightedSentinel
  have h0 : (revoke != 0#64) = true ↔ revoke.toInt ≠ 0 := by
    simp only [bne_iff_ne, ne_eq, ← BitVec.toInt_inj]; rfl
  have h90 : (90#64).toInt = 90 := by decide
  have h100 : (100#64).toInt = 100 := by decide
  simp only [h0, decide_eq_true_eq, toInt_sub_wrap, toInt_mul_wrap, h90, h100, MinInt64_translation_refines_model,
    MaxInt64_translation_refines_model, ge_iff_le, Translated.common_Big0_init, Translated.common_Big1_init]
  (repeat' split) <;> simp_all <;> omega

/-- C18 on the code's own text: the slice `GetRange` answers lies inside the list, whatever the 32-bit inputs -/
theorem getRange_translated_bounds (i c n : BitVec 32) :
    (Translated.GetRange i c n).1.toNat ≤ (Translated.GetRange i c n).2.toNat ∧
    (Translated.GetRange i c n).2.toNat ≤ n.toNat := by
  have h := GetRange_translation_refines_model i c n
  have hb := C18.get_range_bounds i.toNat c.toNat n.toNat
  rw [← h] at hb
  exact ⟨hb.1, hb.2.1⟩

/-- C14 on the code's own text: two blocks cannot each have the higher priority -/
theorem higherPriority_translated_antisymm (a b : Pool.Blk)
    (ha : a.total < two64) (hab : a.base < two64) (hb : b.total < two64) (hbb : b.base < two64)
    (h : Translated.higherPriority (BitVec.ofNat 64 a.base) a.hash (BitVec.ofNat 64 a.total)
        (BitVec.ofNat 64 b.base) b.hash (BitVec.ofNat 64 b.total) = none) :
    Translated.higherPriority (BitVec.ofNat 64 b.base) b.hash (BitVec.ofNat 64 b.total)
        (BitVec.ofNat 64 a.base) a.hash (BitVec.ofNat 64 a.total) ≠ none := by
  rw [higherPriority_translation_refines_model a b ha hab hb hbb] at h
  rw [higherPriority_translation_refines_model b a hb hbb ha hab]
  have h1 : Pool.higherPriority a b = .ok := by
    cases hh : Pool.higherPriority a b <;> simp [hh, prioErr] at h ⊢
  have h2 := C14.priority_antisymm a b h1
  cases hh : Pool.higherPriority b a <;> simp_all [prioErr]

/-- C15 on the code's own text: the amount the hash handlers pass on never exceeds MaxHashFetch -/
theorem caps_translated_le (amount : BitVec 64) :
    ∃ v, Translated.getHashes_cap amount = .ok v ∧ Translated.fromNumber_cap amount = .ok v ∧ v.toNat ≤ Gen.MaxHashFetch := by
  refine ⟨_, getHashes_cap_translation_refines_model amount, fromNumber_cap_translation_refines_model amount, ?_⟩
  have := amount.isLt
  unfold Proto.capHash; simp only [BitVec.toNat_ofNat]
  by_cases h : amount.toNat > Gen.MaxHashFetch
  · rw [if_pos h]; simp [Gen.MaxHashFetch]
  · rw [if_neg h]; simp only [Gen.MaxHashFetch] at h ⊢; omega

/-- C15: the `available` clamp only ever reduces the (already capped) amount -/
theorem fromNumber_available_translated_le (lastHeight number amount : BitVec 64) :
    ∃ v, Translated.fromNumber_available lastHeight number amount = .ok v ∧ v.toNat ≤ amount.toNat := by
  refine ⟨_, fromNumber_available_translation_refines_model lastHeight number amount, ?_⟩
  simp only [BitVec.toNat_ofNat]; split <;> omega

/-- C12 on the code's own text: PoW plasma never exceeds the per-block maximum -/
theorem DifficultyToPlasma_translated_le (d : BitVec 64) :
    (Translated.DifficultyToPlasma d).toNat ≤ Gen.MaxPoWPlasmaForAccountBlock := by
  rw [DifficultyToPlasma_translation_refines_model]; unfold Pow.difficultyToPlasma
  by_cases h0 : d.toNat = 0
  · rw [if_pos h0]; omega
  · rw [if_neg h0]
    by_cases h1 : d.toNat > Gen.MaxDifficultyForAccountBlock
    · rw [if_pos h1]; omega
    · rw [if_neg h1]; simp only [Gen.MaxDifficultyForAccountBlock, Gen.MaxPoWPlasmaForAccountBlock, Gen.PoWDifficultyPerPlasma] at h1 ⊢
      omega

/-- the page request of `GetAccountBlocksByPage` / `GetMomentumsByPage` at the machine level (shape of `Rpc.pageRequest`);
    intermediate step of `accountBlocksPage_translation_refines_model` -/
def pageSpec (H : BitVec 64) (i c : BitVec 32) : Res (BitVec 64 × BitVec 64) :=
  let start := H - BitVec.setWidth 64 (i + 1#32) * BitVec.setWidth 64 c + 1#64
  let count := BitVec.setWidth 64 c
  let tooMuch := 1#64 - start
  let start' := if tooMuch.toInt > 0 then 1#64 else start
  let count' := if tooMuch.toInt > 0 then count - tooMuch else count
  if count'.toInt < 1 then .exit 0 else .ok (start', count')

/-- embedding of the model's answer (`none` = the empty page is answered directly = first `return` of the fragment) -/
def pageEmb : Option (Nat × Nat) → Res (BitVec 64 × BitVec 64)
  | none => .exit 0
  | some (s, n) => .ok (BitVec.ofNat 64 s, BitVec.ofNat 64 n)

theorem accountBlocksPage_translation_refines_model (H : BitVec 64) (i c : BitVec 32)
    (hH : H.toNat < two63) (hc : c.toNat ≤ Gen.RpcMaxPageSize) :
    Translated.accountBlocksPage H i c = pageEmb (Rpc.pageRequest H.toNat i.toNat c.toNat) := by
  have hpin : Translated.accountBlocksPage H i c = pageSpec H i c := by
    unfold Translated.accountBlocksPage pageSpec
    have h0 : (0#64).toInt = 0 := by decide
    have h1 : (1#64).toInt = 1 := by decide
    simp only [h0, h1, decide_eq_true_eq]
    (repeat' split) <;> simp_all
  rw [hpin]
  unfold pageSpec Rpc.pageRequest pageEmb
  simp only [two63, two32, Gen.RpcMaxPageSize] at *
  have hq : (i.toNat + 1) % 4294967296 < 4294967296 := Nat.mod_lt _ (by omega)
  have hm : (i.toNat + 1) % 4294967296 * c.toNat ≤ 4294967296 * 1024 := Nat.mul_le_mul (by omega) hc
  generalize hP : BitVec.setWidth 64 (i + 1#32) * BitVec.setWidth 64 c = P
  have hPn : P.toNat = (i.toNat + 1) % 4294967296 * c.toNat := by
    subst hP
    simp only [BitVec.toNat_mul, BitVec.toNat_setWidth, BitVec.toNat_add, BitVec.toNat_ofNat]
    have e1 : (i.toNat + 1 % 2 ^ 32) % 2 ^ 32 = (i.toNat + 1) % 4294967296 := by omega
    have e2 : (i.toNat + 1) % 4294967296 % 2 ^ 64 = (i.toNat + 1) % 4294967296 := by omega
    have e3 : c.toNat % 2 ^ 64 = c.toNat := by omega
    rw [e1, e2, e3]; omega
  generalize hC : BitVec.setWidth 64 c = C
  have hCn : C.toNat = c.toNat := by subst hC; simp [BitVec.toNat_setWidth]; omega
  have hcast : (((i.toNat + 1) % 4294967296 : Nat) : Int) * (c.toNat : Int) = ((((i.toNat + 1) % 4294967296) * c.toNat : Nat) : Int) := by
    simp
  simp only [hcast]
  rw [← hPn]
  clear hcast hC hP
  have hPb : P.toNat ≤ 4294967296 * 1024 := by omega
  clear hPn hm hq
  have hTn : (1#64 - (H - P + 1#64)).toNat = (2 ^ 64 + P.toNat - H.toNat) % 2 ^ 64 := by bv_omega
  have hT : (1#64 - (H - P + 1#64)).toInt = (P.toNat : Int) - (H.toNat : Int) := by
    rw [toInt_eq, hTn]; split <;> omega
  have hS : (H - P + 1#64).toNat = H.toNat - P.toNat + 1 ∨ P.toNat > H.toNat := by bv_omega
  rw [hT]
  by_cases h : (P.toNat : Int) - (H.toNat : Int) > 0
  · have h' : 1 - ((H.toNat : Int) - (P.toNat : Int) + 1) > 0 := by omega
    simp only [h, h', if_true]
    have hKn : (C - (1#64 - (H - P + 1#64))).toNat = (2 ^ 64 + c.toNat - (P.toNat - H.toNat)) % 2 ^ 64 := by bv_omega
    have hK : (C - (1#64 - (H - P + 1#64))).toInt = (c.toNat : Int) - ((P.toNat : Int) - (H.toNat : Int)) := by
      rw [toInt_eq, hKn]; split <;> omega
    rw [hK]
    by_cases h2 : (c.toNat : Int) - ((P.toNat : Int) - (H.toNat : Int)) < 1
    · have h2' : (c.toNat : Int) - (1 - ((H.toNat : Int) - (P.toNat : Int) + 1)) < 1 := by omega
      simp only [h2, h2', if_true]
    · have h2' : ¬ (c.toNat : Int) - (1 - ((H.toNat : Int) - (P.toNat : Int) + 1)) < 1 := by omega
      simp only [h2, h2', if_false]
      congr 2
      apply BitVec.eq_of_toNat_eq; simp only [BitVec.toNat_ofNat]; omega
  · have h' : ¬ 1 - ((H.toNat : Int) - (P.toNat : Int) + 1) > 0 := by omega
    simp only [h, h', if_false]
    have hK : C.toInt = (c.toNat : Int) := by rw [toInt_eq]; split <;> omega
    rw [hK]
    by_cases h2 : (c.toNat : Int) < 1
    · simp only [h2, if_true]
    · simp only [h2, if_false]
      congr 2
      · apply BitVec.eq_of_toNat_eq; simp only [BitVec.toNat_ofNat]; bv_omega
      · apply BitVec.eq_of_toNat_eq; simp only [BitVec.toNat_ofNat]; bv_omega

example : ∃ (H : BitVec 64) (c : BitVec 32), H.toNat < two63 ∧ c.toNat ≤ Gen.RpcMaxPageSize ∧
    Translated.accountBlocksPage H 2#32 c = .ok (71#64, 10#64) := ⟨100#64, 10#32, by decide⟩

/-- the page-size guard that precedes the fragment (`pageSize > RpcMaxPageSize` → error) is needed for the equality with
    the unbounded-integer model: for huge sizes the int64 product wraps and the code hands on a positive range where the
    model answers the empty page -/
theorem accountBlocksPage_needs_page_size_guard :
    Translated.accountBlocksPage 0#64 4294967294#32 4294967295#32
      ≠ pageEmb (Rpc.pageRequest 0 4294967294 4294967295) := by decide

theorem momentumsPage_translation_refines_model (H : BitVec 64) (i c : BitVec 32)
    (hH : H.toNat < two63) (hc : c.toNat ≤ Gen.RpcMaxPageSize) :
    Translated.momentumsPage H i c = pageEmb (Rpc.pageRequest H.toNat i.toNat c.toNat) := by
  rw [momentumsPage_eq_accountBlocksPage]; exact accountBlocksPage_translation_refines_model H i c hH hc

/-- `getWeightedStakeAmount` = the hand model `RewardEpoch.stakeWeightedAmount` at the live `StakeTimeUnitSec`
    (int64 quotient and sum with wrap-around, big.Int product, `Div` by 10) -/
theorem getWeightedStakeAmount_translation_refines_model (amount : Nat) (t : BitVec 64) :
    Translated.getWeightedStakeAmount (amount : Int) t
      = (match RewardEpoch.stakeWeightedAmount Gen.StakeTimeUnitSec amount t.toInt with
         | none => .panic | some v => .ok v) := by
  unfold Translated.getWeightedStakeAmount RewardEpoch.stakeWeightedAmount Rewards.div64
  have hU : (Translated.vm_constants_StakeTimeUnitSec_init).toInt = Gen.StakeTimeUnitSec := by decide
  have h9 : (9#64).toInt = 9 := by decide
  simp only [bigOfI64, bigDiv, toInt_add_wrap, toInt_sdiv_wrap, hU, h9]
  simp [Translated.vm_constants_StakeTimeUnitSec_init, Gen.StakeTimeUnitSec]
  rfl

/-- the two `interval * time.Duration(tick)` products of `ticker.ToTime` added to the start instant = `Ticker.toTime` -/
theorem ToTime_offsets_translation_refines_model (iv tick : BitVec 64) (start : Int) (h1 : tick.toNat + 1 < two64) :
    (start + (Translated.ToTime_startOffset iv tick).toInt, start + (Translated.ToTime_endOffset iv tick).toInt)
      = Consensus.Ticker.toTime ⟨start, iv.toInt⟩ tick.toNat := by
  unfold Translated.ToTime_startOffset Translated.ToTime_endOffset Consensus.Ticker.toTime
  have e : (tick + 1#64).toNat = tick.toNat + 1 := by simp only [two64] at h1; bv_omega
  simp only [toInt_mul_wrap, consensus_wrap64_eq, toInt64_toNat, Rewards.mul64, ← e]

theorem rewardHistoryFirstEpoch_translation_refines_model (last : BitVec 64) (i c : BitVec 32) :
    (Translated.rewardHistoryFirstEpoch last i c).toInt = Rewards.rewardHistoryFirstEpoch last.toInt i.toNat c.toNat := by
  unfold Translated.rewardHistoryFirstEpoch Rewards.rewardHistoryFirstEpoch
  simp only [toInt_sub_wrap, toInt_mul_wrap, toInt_zext32]

/-- `TickMultiplier`, after the four instants are read = `Consensus.tickMultiplier` on the two wrapped differences:
    the multiplier is reported only when the bigger duration is a whole multiple of the smaller one; a zero callee
    duration panics (integer divide by zero) -/
theorem TickMultiplier_tail_translation_refines_model (cE cS bE bS : BitVec 64) :
    Translated.TickMultiplier_tail cE cS bE bS =
      (match Consensus.tickMultiplier (Consensus.wrap64 (cE.toInt - cS.toInt)) (Consensus.wrap64 (bE.toInt - bS.toInt)) with
       | none => .panic
       | some none => .ok (0#64, some "errorf")
       | some (some m) => .ok (BitVec.ofInt 64 m, none)) := by
  unfold Translated.TickMultiplier_tail Consensus.tickMultiplier
  simp only [consensus_wrap64_eq, ← toInt_sub_wrap]
  generalize cE - cS = c
  generalize bE - bS = b
  have h0 : (c == 0#64) = true ↔ c.toInt = 0 := by
    simp only [beq_iff_eq, ← BitVec.toInt_inj]; rfl
  have h1 : (BitVec.srem b c != 0#64) = true ↔ Int.tmod b.toInt c.toInt ≠ 0 := by
    simp only [bne_iff_ne, ne_eq, ← BitVec.toInt_inj, BitVec.toInt_srem]; rfl
  simp only [h0, h1, decide_eq_true_eq, ← toInt_sdiv_wrap]
  (repeat' split) <;> simp_all
  rename_i heq; rw [← heq, BitVec.ofInt_toInt]
/-! ### round 6 — loops and tables -/

/-- C12: `pow.greaterDifficulty` (loop from byte 7 down to byte 0) on two 8-byte slices = the hand model -/
theorem greaterDifficulty_translation_refines_model (x y : List Nat) (hx : x.length = 8) (hy : y.length = 8) :
    Translated.greaterDifficulty x y = .ok (Pow.greaterDifficulty x y) := by
  have hidx : Go.downS 7#64 18446744073709551615#64 = [7#64, 6#64, 5#64, 4#64, 3#64, 2#64, 1#64, 0#64] := by decide
  match x, hx with
  | [a0, a1, a2, a3, a4, a5, a6, a7], _ =>
  match y, hy with
  | [b0, b1, b2, b3, b4, b5, b6, b7], _ =>
  unfold Translated.greaterDifficulty
  rw [hidx]
  simp only [Go.forIn, Go.oobS, Go.atB, Go.loopThen, Pow.greaterDifficulty, Pow.geMSB, List.reverse_cons, List.reverse_nil,
    List.nil_append, List.cons_append, List.length_cons, List.length_nil]
  have t7 : (7#64).toNat = 7 := by decide
  have t6 : (6#64).toNat = 6 := by decide
  have t5 : (5#64).toNat = 5 := by decide
  have t4 : (4#64).toNat = 4 := by decide
  have t3 : (3#64).toNat = 3 := by decide
  have t2 : (2#64).toNat = 2 := by decide
  have t1 : (1#64).toNat = 1 := by decide
  have t0 : (0#64).toNat = 0 := by decide
  have i7 : (7#64).toInt = 7 := by decide
  have i6 : (6#64).toInt = 6 := by decide
  have i5 : (5#64).toInt = 5 := by decide
  have i4 : (4#64).toInt = 4 := by decide
  have i3 : (3#64).toInt = 3 := by decide
  have i2 : (2#64).toInt = 2 := by decide
  have i1 : (1#64).toInt = 1 := by decide
  have i0 : (0#64).toInt = 0 := by decide
  simp only [t7, t6, t5, t4, t3, t2, t1, t0, i7, i6, i5, i4, i3, i2, i1, i0, List.getD_cons_succ, List.getD_cons_zero,
    Nat.reduceAdd, Nat.reduceLeDiff, Int.reduceLT, decide_false, Bool.or_self, Bool.false_eq_true, if_false, decide_eq_true_eq,
    beq_iff_eq, gt_iff_lt, ite_self]
  by_cases h7 : b7 < a7
  · simp [h7]
  by_cases g7 : a7 < b7
  · simp [h7, g7]
  by_cases h6 : b6 < a6
  · simp [h7, g7, h6]
  by_cases g6 : a6 < b6
  · simp [h7, g7, h6, g6]
  by_cases h5 : b5 < a5
  · simp [h7, g7, h6, g6, h5]
  by_cases g5 : a5 < b5
  · simp [h7, g7, h6, g6, h5, g5]
  by_cases h4 : b4 < a4
  · simp [h7, g7, h6, g6, h5, g5, h4]
  by_cases g4 : a4 < b4
  · simp [h7, g7, h6, g6, h5, g5, h4, g4]
  by_cases h3 : b3 < a3
  · simp [h7, g7, h6, g6, h5, g5, h4, g4, h3]
  by_cases g3 : a3 < b3
  · simp [h7, g7, h6, g6, h5, g5, h4, g4, h3, g3]
  by_cases h2 : b2 < a2
  · simp [h7, g7, h6, g6, h5, g5, h4, g4, h3, g3, h2]
  by_cases g2 : a2 < b2
  · simp [h7, g7, h6, g6, h5, g5, h4, g4, h3, g3, h2, g2]
  by_cases h1 : b1 < a1
  · simp [h7, g7, h6, g6, h5, g5, h4, g4, h3, g3, h2, g2, h1]
  by_cases g1 : a1 < b1
  · simp [h7, g7, h6, g6, h5, g5, h4, g4, h3, g3, h2, g2, h1, g1]
  by_cases h0 : b0 < a0
  · simp [h7, g7, h6, g6, h5, g5, h4, g4, h3, g3, h2, g2, h1, g1, h0]
  by_cases g0 : a0 < b0
  · simp [h7, g7, h6, g6, h5, g5, h4, g4, h3, g3, h2, g2, h1, g1, h0, g0]
  simp [h7, g7, h6, g6, h5, g5, h4, g4, h3, g3, h2, g2, h1, g1, h0, g0]

example : Translated.greaterDifficulty [0,0,0,0,0,0,0,1] [255,255,255,255,255,255,255,0] = .ok true := by decide

/-- …and it panics (index out of range) when a slice is shorter than 8 bytes -/
theorem greaterDifficulty_short_panics (x y : List Nat) (h : x.length < 8 ∨ y.length < 8) :
    Translated.greaterDifficulty x y = .panic := by
  have hidx : Go.downS 7#64 18446744073709551615#64 = [7#64, 6#64, 5#64, 4#64, 3#64, 2#64, 1#64, 0#64] := by decide
  have t7 : (7#64).toNat = 7 := by decide
  have i7 : (7#64).toInt = 7 := by decide
  unfold Translated.greaterDifficulty
  rw [hidx]
  have hb : (Go.oobS x 7#64 || Go.oobS y 7#64) = true := by
    simp only [Go.oobS, t7, i7, Bool.or_eq_true, decide_eq_true_eq]; omega
  simp only [Go.forIn, hb, if_true, Go.loopThen]

/-- embedding of the reward model's answer (`none` = run-time panic) -/
def rewardEmb : Option Int → Res (BitVec 64)
  | none => .panic
  | some v => .ok (BitVec.ofInt 64 v)

theorem NetworkZnnRewardPerEpoch_translation_refines_model (e : BitVec 64) :
    Translated.NetworkZnnRewardPerEpoch e = rewardEmb (Rewards.networkZnnRewardPerEpoch e.toNat) := by
  have hlen : Go.len Translated.vm_constants_NetworkZnnRewardConfig_init = 11#64 := by decide
  have hlast : Go.oobS Translated.vm_constants_NetworkZnnRewardConfig_init (11#64 - 1#64) = false := by decide
  have hL : (Gen.NetworkZnnRewardConfig.getLast?).map (BitVec.ofInt 64)
      = some (Go.atW Translated.vm_constants_NetworkZnnRewardConfig_init (11#64 - 1#64)) := by decide
  have hI : ∀ t, t < 11 → (Gen.NetworkZnnRewardConfig[t]?).map (BitVec.ofInt 64)
      = some (Translated.vm_constants_NetworkZnnRewardConfig_init.getD t 0#64) := by decide
  have hT : Translated.vm_constants_NetworkZnnRewardConfig_init.length = 11 := by decide
  have hG : Gen.NetworkZnnRewardConfig.length = 11 := by decide
  have hD : Translated.vm_constants_RewardTickDurationInEpochs_init = 30#64 := by decide
  have he := e.isLt
  unfold Translated.NetworkZnnRewardPerEpoch Rewards.networkZnnRewardPerEpoch Rewards.networkRewardPerEpoch
  simp only [hlen, hlast, hD, hG, Gen.RewardTickDurationInEpochs, two64, two63]
  have hq : (e / 30#64).toNat = e.toNat / 30 := by simp [BitVec.toNat_udiv]
  have hqi : (e / 30#64).toInt = ((e.toNat / 30 : Nat) : Int) := by rw [toInt_eq, hq]; split <;> omega
  have h11 : (11#64).toInt = 11 := by decide
  have hm : e.toNat % 18446744073709551616 = e.toNat := Nat.mod_eq_of_lt he
  simp only [hqi, h11, hm]
  have hsmall : ¬ (e.toNat / 30 ≥ 9223372036854775808) := by omega
  have h30 : (30#64 == 0#64) = false := by decide
  simp only [hsmall, if_false, h30, Bool.false_eq_true, decide_eq_true_eq, Int.toNat_natCast, Nat.reduceEqDiff]
  by_cases hge : ((e.toNat / 30 : Nat) : Int) ≥ 11
  · have hge' : ((e.toNat / 30 : Nat) : Int) ≥ ((11 : Nat) : Int) := hge
    simp only [hge, hge', if_true]
    have := hL
    cases hh : Gen.NetworkZnnRewardConfig.getLast? with
    | none => rw [hh] at this; simp at this
    | some v => rw [hh] at this; simp only [Option.map_some, Option.some.injEq] at this; simp only [rewardEmb, this]
  · have hge' : ¬ ((e.toNat / 30 : Nat) : Int) ≥ ((11 : Nat) : Int) := hge
    have hneg : ¬ ((e.toNat / 30 : Nat) : Int) < 0 := by omega
    have hlt : e.toNat / 30 < 11 := by omega
    have hoob : Go.oobS Translated.vm_constants_NetworkZnnRewardConfig_init (e / 30#64) = false := by
      simp only [Go.oobS, hqi, hq, hT, Bool.or_eq_false_iff, decide_eq_false_iff_not]; omega
    simp only [hge, hge', hneg, if_false, hoob, Bool.false_eq_true, Go.atW, hq]
    have := hI _ hlt
    cases hh : Gen.NetworkZnnRewardConfig[e.toNat / 30]? with
    | none => rw [hh] at this; simp at this
    | some v => rw [hh] at this; simp only [Option.map_some, Option.some.injEq] at this; simp only [rewardEmb, this]

theorem NetworkQsrRewardPerEpoch_translation_refines_model (e : BitVec 64) :
    Translated.NetworkQsrRewardPerEpoch e = rewardEmb (Rewards.networkQsrRewardPerEpoch e.toNat) := by
  have hlen : Go.len Translated.vm_constants_NetworkQsrRewardConfig_init = 8#64 := by decide
  have hlast : Go.oobS Translated.vm_constants_NetworkQsrRewardConfig_init (8#64 - 1#64) = false := by decide
  have hL : (Gen.NetworkQsrRewardConfig.getLast?).map (BitVec.ofInt 64)
      = some (Go.atW Translated.vm_constants_NetworkQsrRewardConfig_init (8#64 - 1#64)) := by decide
  have hI : ∀ t, t < 8 → (Gen.NetworkQsrRewardConfig[t]?).map (BitVec.ofInt 64)
      = some (Translated.vm_constants_NetworkQsrRewardConfig_init.getD t 0#64) := by decide
  have hT : Translated.vm_constants_NetworkQsrRewardConfig_init.length = 8 := by decide
  have hG : Gen.NetworkQsrRewardConfig.length = 8 := by decide
  have hD : Translated.vm_constants_RewardTickDurationInEpochs_init = 30#64 := by decide
  have he := e.isLt
  unfold Translated.NetworkQsrRewardPerEpoch Rewards.networkQsrRewardPerEpoch Rewards.networkRewardPerEpoch
  simp only [hlen, hlast, hD, hG, Gen.RewardTickDurationInEpochs, two64, two63]
  have hq : (e / 30#64).toNat = e.toNat / 30 := by simp [BitVec.toNat_udiv]
  have hqi : (e / 30#64).toInt = ((e.toNat / 30 : Nat) : Int) := by rw [toInt_eq, hq]; split <;> omega
  have h8 : (8#64).toInt = 8 := by decide
  have hm : e.toNat % 18446744073709551616 = e.toNat := Nat.mod_eq_of_lt he
  simp only [hqi, h8, hm]
  have hsmall : ¬ (e.toNat / 30 ≥ 9223372036854775808) := by omega
  have h30 : (30#64 == 0#64) = false := by decide
  simp only [hsmall, if_false, h30, Bool.false_eq_true, decide_eq_true_eq, Int.toNat_natCast, Nat.reduceEqDiff]
  by_cases hge : ((e.toNat / 30 : Nat) : Int) ≥ 8
  · have hge' : ((e.toNat / 30 : Nat) : Int) ≥ ((8 : Nat) : Int) := hge
    simp only [hge, hge', if_true]
    have := hL
    cases hh : Gen.NetworkQsrRewardConfig.getLast? with
    | none => rw [hh] at this; simp at this
    | some v => rw [hh] at this; simp only [Option.map_some, Option.some.injEq] at this; simp only [rewardEmb, this]
  · have hge' : ¬ ((e.toNat / 30 : Nat) : Int) ≥ ((8 : Nat) : Int) := hge
    have hneg : ¬ ((e.toNat / 30 : Nat) : Int) < 0 := by omega
    have hlt : e.toNat / 30 < 8 := by omega
    have hoob : Go.oobS Translated.vm_constants_NetworkQsrRewardConfig_init (e / 30#64) = false := by
      simp only [Go.oobS, hqi, hq, hT, Bool.or_eq_false_iff, decide_eq_false_iff_not]; omega
    simp only [hge, hge', hneg, if_false, hoob, Bool.false_eq_true, Go.atW, hq]
    have := hI _ hlt
    cases hh : Gen.NetworkQsrRewardConfig[e.toNat / 30]? with
    | none => rw [hh] at this; simp at this
    | some v => rw [hh] at this; simp only [Option.map_some, Option.some.injEq] at this; simp only [rewardEmb, this]

/-! ### C11 — the epoch cursor -/

theorem epochUpdate_nextEpoch_translation_refines_model (last : BitVec 64) :
    (Translated.epochUpdate_nextEpoch last).toInt = Rewards.wrap64 (last.toInt + 1) ∧
    Translated.epochUpdate_advance last = .ok (Translated.epochUpdate_nextEpoch last) := by
  have h1 : (1#64).toInt = 1 := by decide
  exact ⟨by unfold Translated.epochUpdate_nextEpoch; rw [toInt_add_wrap, h1], rfl⟩

/-- the test of `CanPerformEpochUpdate` is `EpochCursor.tooRecent` when `epochEnd` is the end of epoch `cursor + 1` and the
    int64 sum `end + RewardTimeLimit` does not overflow -/
theorem epochUpdate_tooRecent_translation_refines_model (c : EpochCursor.Cfg) (cursor : Int) (ts e : BitVec 64)
    (hr : c.rtl = Gen.RewardTimeLimit) (he : e.toInt = EpochCursor.epochEnd c (cursor + 1))
    (hno : e.toInt + Gen.RewardTimeLimit < (two63 : Int)) :
    Translated.epochUpdate_tooRecent ts e = if EpochCursor.tooRecent c cursor ts.toInt then .exit 0 else .ok () := by
  unfold Translated.epochUpdate_tooRecent EpochCursor.tooRecent
  have hR : (Translated.vm_constants_RewardTimeLimit_init).toInt = Gen.RewardTimeLimit := by decide
  have hlo : -(9223372036854775808 : Int) ≤ e.toInt := by have := e.isLt; rw [toInt_eq]; split <;> omega
  rw [toInt_add_wrap, hR, hr, ← he]
  have : Rewards.wrap64 (e.toInt + Gen.RewardTimeLimit) = e.toInt + Gen.RewardTimeLimit := by
    unfold Rewards.wrap64; simp only [two63, two64, Gen.RewardTimeLimit] at *; omega
  rw [this]

/-! ### C12 — base cost of a plain send, the three inequalities of `enoughPlasma` -/

theorem basePlasma_plainSend_translation_refines_model (d : BitVec 64) (hd : d.toNat < two63) :
    Translated.basePlasma_plainSend d = (match Pow.basePlasmaChecked false none d.toNat with
      | none => (0#64, some "ErrABDataTooBig")
      | some v => (BitVec.ofNat 64 v, none)) := by
  unfold Translated.basePlasma_plainSend Pow.basePlasmaChecked Pow.basePlasma
  simp only [two63] at hd
  have hi : d.toInt = (d.toNat : Int) := by rw [toInt_eq]; split <;> omega
  have h16 : (16384#64).toInt = 16384 := by decide
  simp only [hi, h16, Gen.MaxDataLength, Gen.ABByteDataPlasma, Gen.AccountBlockBasePlasma, decide_eq_true_eq, Bool.false_eq_true, if_false]
  by_cases h : (d.toNat : Int) > 16384
  · have h' : d.toNat > 16384 := by omega
    simp only [h, h', if_true]
  · have h' : ¬ d.toNat > 16384 := by omega
    simp only [h, h', if_false]
    have e1 : (d * 68#64 + 21000#64).toNat = d.toNat * 68 + 21000 := by bv_omega
    have e2 : (BitVec.ofNat 64 (d.toNat * 68 + 21000)).toNat = d.toNat * 68 + 21000 := by
      rw [BitVec.toNat_ofNat]; omega
    have e3 : d * 68#64 + 21000#64 = BitVec.ofNat 64 (d.toNat * 68 + 21000) := BitVec.eq_of_toNat_eq (by rw [e1, e2])
    rw [e3]

/-- the three fragments of `vm.enoughPlasma`, run one after the other, are `Pow.enoughPlasma` once `AvailablePlasma` answered -/
theorem enoughPlasma_translation_refines_model (q : Int) (cm uc : Nat) (avail fused diff base : BitVec 64) (junk : BitVec 64)
    (ha : Pow.availablePlasma q cm uc = some avail.toNat) :
    (match Translated.enoughPlasma_fused avail fused with
     | .ok () => (match Translated.enoughPlasma_total diff fused junk with
        | .ok total => (match Translated.enoughPlasma_base total base with
            | .ok () => Pow.PlasmaVerdict.ok total.toNat
            | _ => .notEnoughTotal)
        | _ => .limitReached)
     | _ => .notEnoughPlasma) = Pow.enoughPlasma q cm uc fused.toNat diff.toNat base.toNat := by
  obtain ⟨T, hTd⟩ : ∃ T, T = Translated.DifficultyToPlasma diff + fused := ⟨_, rfl⟩
  have hT : T.toNat = (Pow.difficultyToPlasma diff.toNat + fused.toNat) % two64 := by
    rw [hTd, BitVec.toNat_add, DifficultyToPlasma_translation_refines_model]; rfl
  have htot : Translated.enoughPlasma_total diff fused junk = if 10500000 < T.toNat then .exit 0 else .ok T := by
    unfold Translated.enoughPlasma_total
    simp only [← hTd, BitVec.lt_def, gt_iff_lt, decide_eq_true_eq]; rfl
  rw [htot]
  unfold Pow.enoughPlasma Translated.enoughPlasma_fused Translated.enoughPlasma_base
  rw [ha]
  simp only [BitVec.lt_def, gt_iff_lt, decide_eq_true_eq, ← hT, Gen.MaxPlasmaForAccountBlock]
  by_cases h1 : avail.toNat < fused.toNat
  · simp [h1]
  · by_cases h2 : 10500000 < T.toNat
    · simp [h1, h2]
    · by_cases h3 : T.toNat < base.toNat
      · simp [h1, h2, h3]
      · simp [h1, h2, h3]

/-! ### C05 / C03 — comparisons of the verifiers -/

theorem momentum_timestamp_translation_refines_model (ts prevTs tsU : BitVec 64) :
    Translated.momentum_timestampMissing ts = (if ts.toInt = 0 then .exit 0 else .ok ()) ∧
    Translated.momentum_timestampNotIncreasing prevTs tsU = (if prevTs.toNat ≥ tsU.toNat then .exit 0 else .ok ()) := by
  unfold Translated.momentum_timestampMissing Translated.momentum_timestampNotIncreasing
  have h0 : (ts == 0#64) = true ↔ ts.toInt = 0 := by simp only [beq_iff_eq, ← BitVec.toInt_inj]; rfl
  simp only [h0, BitVec.le_def, ge_iff_le, decide_eq_true_eq, and_self]

theorem accountBlock_heightChecks_translation_refines_model (b : Verify.Blk) (hh : b.h < two64) :
    Translated.accountBlock_heightChecks (BitVec.ofNat 64 b.h) b.phz
      = (match Verify.firstErr (Verify.heightChecks b) with
         | .error .abMHeightMissing => .exit 0
         | .error .abPrevHashMustBeZero => .exit 1
         | .error .abPrevHashMissing => .exit 2
         | _ => .ok ()) := by
  unfold Translated.accountBlock_heightChecks Verify.heightChecks
  have e0 : (BitVec.ofNat 64 b.h == 0#64) = (b.h == 0) := by
    simp only [two64] at hh; rw [Bool.eq_iff_iff]; simp only [beq_iff_eq, ← BitVec.toNat_inj, BitVec.toNat_ofNat]; omega
  have e1 : (BitVec.ofNat 64 b.h == 1#64) = (b.h == 1) := by
    simp only [two64] at hh; rw [Bool.eq_iff_iff]; simp only [beq_iff_eq, ← BitVec.toNat_inj, BitVec.toNat_ofNat]; omega
  have e2 : (BitVec.ofNat 64 b.h != 1#64) = (b.h != 1) := by simp only [bne, e1]
  rw [e0, e1, e2]
  cases h0 : (b.h == 0) <;> cases h1 : (b.h == 1) <;> cases hz : b.phz <;>
    simp_all [Verify.firstErr, Verify.chk, bne]

theorem insertChain_window_translation_refines_model (fr tg tl : BitVec 64) :
    Translated.insertChain_window fr tg tl =
      (if Proto.sub64 fr.toNat tg.toNat > Gen.InsertChainWindow then .exit 0
       else if tl.toNat ≤ fr.toNat then .exit 1 else .ok ()) ∧
    (∀ h : BitVec 64, (Translated.insertChain_targetHeight h).toNat = Sync.pred64 h.toNat) := by
  constructor
  · unfold Translated.insertChain_window Proto.sub64
    have hs : (fr - tg).toNat = if tg.toNat ≤ fr.toNat then fr.toNat - tg.toNat else two64 - (tg.toNat - fr.toNat) := by
      simp only [two64]; split <;> bv_omega
    simp only [BitVec.lt_def, BitVec.le_def, gt_iff_lt, decide_eq_true_eq, hs, Gen.InsertChainWindow, BitVec.toNat_ofNat]
  · intro h; unfold Translated.insertChain_targetHeight Sync.pred64; simp only [two64]; split <;> bv_omega

/-- the two amount bounds of `accountBlockVerifier.amounts` (`Sign() == -1`, `BitLen() > 255`) for a non-nil amount whose
    bit length fits an `int` (it always does in a running process) -/
theorem accountBlock_amountBounds_translation_refines_model (a : Int) (hfit : Nat.log2 a.natAbs + 1 < two63) :
    Translated.accountBlock_amountBounds a
      = if a < 0 then .exit 0 else if Verify.amountTooBig a then .exit 1 else .ok () := by
  unfold Translated.accountBlock_amountBounds Verify.amountTooBig
  have hs : (Go.bigSign a == 18446744073709551615#64) = decide (a < 0) := by
    unfold Go.bigSign Go.bigCmp
    by_cases h1 : a < 0
    · simp [h1]
    · by_cases h2 : a = 0
      · simp [h2]
      · simp [h1, h2]
  have h255 : (255#64).toInt = 255 := by decide
  have hb : (Go.bigBitLen a).toInt > 255 ↔ a.natAbs ≥ 2 ^ 255 := by
    unfold Go.bigBitLen
    simp only [two63] at hfit
    by_cases h0 : a = 0
    · subst h0; simp
    · have hn : a.natAbs ≠ 0 := by omega
      have hl := Nat.log2_lt (n := a.natAbs) (k := 255) hn
      simp only [h0, if_false]
      rw [toInt_eq]
      simp only [BitVec.toNat_ofNat]
      have : (Nat.log2 a.natAbs + 1) % 2 ^ 64 = Nat.log2 a.natAbs + 1 := by omega
      rw [this]
      split <;> omega
  simp [hs, h255, hb, Gen.AmountMaxBitLen]

/-- shape of a page-size guard with bound `m`: `if pageSize > m { return … }` -/
def guardSpec (m : BitVec 32) : BitVec 32 → Res Unit := fun c => if decide (c > m) then .exit 0 else .ok ()

/-- C18: EVERY paged getter of rpc/api and rpc/api/embedded (27 functions with a `pageSize uint32` parameter) contains a
    guard `if pageSize > m { return … }` with `m ≤ RpcMaxPageSize` (`m = RpcMaxPageSize`, or the stricter
    `unreceivedMaxPageSize = 50` of `GetUnreceivedBlocksByAddress`): whatever passes it is at most `RpcMaxPageSize` -/
theorem pageGuards_translation_refines_model :
    Translated.unguardedPagedGetters = [] ∧
    ∀ g ∈ Translated.pageGuards, ∃ m : BitVec 32, m.toNat ≤ Gen.RpcMaxPageSize ∧
      ∀ c : BitVec 32, g.2 c = if c.toNat > m.toNat then .exit 0 else .ok () := by
  refine ⟨by decide, ?_⟩
  have key : ∀ m c : BitVec 32, guardSpec m c = if c.toNat > m.toNat then .exit 0 else .ok () := by
    intro m c; unfold guardSpec
    simp only [BitVec.lt_def, gt_iff_lt, decide_eq_true_eq]
  have all : ∀ g ∈ Translated.pageGuards, g.2 = guardSpec 1024#32 ∨ g.2 = guardSpec 50#32 := by
    simp only [Translated.pageGuards, List.forall_mem_cons]
    repeat (refine ⟨by first | exact Or.inl rfl | exact Or.inr rfl, ?_⟩)
    intro g hg; cases hg
  intro g hg
  rcases all g hg with h | h
  · exact ⟨1024#32, by decide, fun c => by rw [h]; exact key _ c⟩
  · exact ⟨50#32, by decide, fun c => by rw [h]; exact key _ c⟩

example : Translated.pageGuards.length = 27 := by decide

example : ∃ (q : Int) (cm uc : Nat) (avail : BitVec 64), Pow.availablePlasma q cm uc = some avail.toNat :=
  ⟨0, 5, 0, 5#64, by decide⟩

example : ∃ a : Int, Nat.log2 a.natAbs + 1 < two63 ∧ Translated.accountBlock_amountBounds a = .exit 1 :=
  ⟨2 ^ 255, by decide, by decide⟩

/-- C05: `electionAlgorithm.findSeed` = `int64(height)` -/
theorem findSeed_translation_refines_model (h : BitVec 64) :
    (Translated.findSeed h).toInt = Consensus.findSeed h.toNat := by
  unfold Translated.findSeed Consensus.findSeed; rw [toInt64_toNat]

example : ∃ (c : EpochCursor.Cfg) (cursor : Int) (e : BitVec 64), c.rtl = Gen.RewardTimeLimit ∧
    e.toInt = EpochCursor.epochEnd c (cursor + 1) ∧ e.toInt + Gen.RewardTimeLimit < (two63 : Int) :=
  ⟨{ genesis := 0, epochSec := 86400, rtl := 3600, updMin := 0, maxBlocks := 0, epochSec_pos := by decide }, 0, 172800#64,
    by decide⟩

/-- C14: `accountPool.filterBlocksToCommit` on the list of block types (the slice of block pointers projected to the one
    field the function reads) is the hand model's loop `Pool.filterGo` -/
theorem filterBlocksToCommit_translation_refines_model (blocks : List (BitVec 64)) (hl : blocks.length < two63) :
    Translated.filterBlocksToCommit blocks
      = .ok (Pool.filterGo (fun b : BitVec 64 => Pool.isContractSend b.toNat) Gen.MaxAccountBlocksInMomentum blocks [] []) := by
  simp only [two63] at hl
  have hl' : blocks.length < 2 ^ 63 := by omega
  have hlen : (Go.len blocks).toInt = (blocks.length : Int) := by
    unfold Go.len; rw [toInt_eq, BitVec.toNat_ofNat]
    have : blocks.length % 2 ^ 64 = blocks.length := Nat.mod_eq_of_lt (by omega)
    rw [this]; split <;> omega
  have hM : Translated.chain_MaxAccountBlocksInMomentum_init.toInt = (Gen.MaxAccountBlocksInMomentum : Int) := by decide
  unfold Translated.filterBlocksToCommit
  have g1 : decide ((Go.len blocks).toInt < 0) = false := by rw [hlen]; simp
  have g2 : decide (Translated.chain_MaxAccountBlocksInMomentum_init.toInt < 0) = false := by decide
  simp only [g1, g2, Bool.false_eq_true, if_false]
  rw [upS_len_eq blocks hl']
  have key : ∀ body : BitVec 64 → LL → Step LL (List (BitVec 64)),
      (∀ (k : Nat) (b : BitVec 64) (batch tc : List (BitVec 64)), blocks[k]? = some b → batch.length + tc.length ≤ k →
        body (0#64 + BitVec.ofNat 64 k) (batch, tc) =
          if (fun b : BitVec 64 => Pool.isContractSend b.toNat) b then .next (batch ++ [b], tc)
          else if tc.length + (batch ++ [b]).length > Gen.MaxAccountBlocksInMomentum then .brk (batch ++ [b], tc)
          else .next ([], tc ++ (batch ++ [b]))) →
      loopThen (Go.forIn (idxFrom 0 blocks.length) ([], []) body) (fun s__ => Res.ok s__.snd)
        = .ok (Pool.filterGo (fun b : BitVec 64 => Pool.isContractSend b.toNat) Gen.MaxAccountBlocksInMomentum blocks [] []) := by
    intro body hb
    obtain ⟨b', h | h⟩ := filterLoop_spec _ _ blocks body hb blocks [] [] [] (by simp) (by simp) <;>
      (simp only [List.length_nil] at h; rw [h]; rfl)
  apply key
  intro k b batch tc hk hinv
  have hkl : k < blocks.length := by
    rcases Nat.lt_or_ge k blocks.length with h | h
    · exact h
    · rw [List.getElem?_eq_none h] at hk; cases hk
  have hi : (0#64 + BitVec.ofNat 64 k).toNat = k := by
    simp only [BitVec.zero_add, BitVec.toNat_ofNat]; exact Nat.mod_eq_of_lt (by omega)
  have hii : (0#64 + BitVec.ofNat 64 k).toInt = (k : Int) := by rw [toInt_eq, hi]; split <;> omega
  have hoob : oobS blocks (0#64 + BitVec.ofNat 64 k) = false := by
    simp only [oobS, hi, hii, Bool.or_eq_false_iff, decide_eq_false_iff_not]; omega
  have hat : atW blocks (0#64 + BitVec.ofNat 64 k) = b := by
    simp only [atW, hi, List.getD, hk, Option.getD_some]
  have hsum : (Go.len tc + Go.len (batch ++ [b])).toInt = ((tc.length + (batch ++ [b]).length : Nat) : Int) := by
    have hle : tc.length + (batch ++ [b]).length < 2 ^ 63 := by simp; omega
    have hn : (Go.len tc + Go.len (batch ++ [b])).toNat = tc.length + (batch ++ [b]).length := by
      simp only [Go.len, BitVec.toNat_add, BitVec.toNat_ofNat]; omega
    rw [toInt_eq, hn]; split <;> omega
  have hcs : (b != 4#64) = !(Pool.isContractSend b.toNat) := by
    unfold Pool.isContractSend
    simp only [Gen.BlockTypeContractSend, bne, Bool.not_eq_eq_eq_not, Bool.not_not]
    rw [Bool.eq_iff_iff]; simp only [beq_iff_eq, ← BitVec.toNat_inj]; rfl
  have hcs2 : (b == 4#64) = Pool.isContractSend b.toNat := by
    rw [← Bool.not_not (b == 4#64)]; exact (congrArg (!·) hcs).trans (Bool.not_not _)
  have hgt : ∀ n : Nat, ((n : Int) > (Gen.MaxAccountBlocksInMomentum : Int)) ↔ n > Gen.MaxAccountBlocksInMomentum := by
    intro n; omega
  simp only [hoob, hat, hsum, hM, hcs, hcs2, hgt, Bool.false_eq_true, if_false, decide_eq_true_eq]
  all_goals (by_cases h1 : Pool.isContractSend b.toNat = true <;>
    by_cases h2 : tc.length + (batch ++ [b]).length > Gen.MaxAccountBlocksInMomentum <;> simp [h1, h2])

example : Translated.filterBlocksToCommit [2#64, 4#64, 4#64, 3#64, 4#64] = .ok [2#64, 4#64, 4#64, 3#64] := by decide

end ZV.Translated
