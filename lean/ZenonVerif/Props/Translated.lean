import ZenonVerif.Gen.Translated
import ZenonVerif.Lemmas.GoSem
import ZenonVerif.Model.Rpc
import ZenonVerif.Model.Pool
import ZenonVerif.Model.Pow
import ZenonVerif.Model.Proto
import ZenonVerif.Model.Consensus
import ZenonVerif.Model.Rewards
import ZenonVerif.Props.C18
import ZenonVerif.Props.C14
/-
L12 — the TRANSLATED definitions (Gen/Translated.lean, regenerated from the Go text of /repo on every run by
harness/cmd/zvh/f_translate.go) refine the hand-written models. Every `…_translation_refines_model` theorem is re-checked
against what the code says NOW: an edit of the Go function that changes its input/output behaviour breaks the theorem, a
behaviour-preserving rewrite inside the subset does not have to. A function that leaves the translated subset turns into
`<name>_UNTRANSLATABLE` and the theorem about `<name>` no longer elaborates.
The `…_translated_…` corollaries restate key property clauses directly on the code's own text.
-/
namespace ZV.Translated
open ZV ZV.Gen ZV.Go

/-- nothing was refused by the translator -/
theorem all_translated : Translated.untranslatableNames = [] := by decide

/-! ### C18 — `api.GetRange` -/

theorem GetRange_translation_refines_model (i c n : BitVec 32) :
    ((Translated.GetRange i c n).1.toNat, (Translated.GetRange i c n).2.toNat)
      = Rpc.getRange i.toNat c.toNat n.toNat := by
  have hm := mul32_lt i.toNat c.toNat i.isLt c.isLt
  have hc := c.isLt
  have hn := n.isLt
  unfold Translated.GetRange Rpc.getRange
  simp only [ge_iff_le, BitVec.le_def, BitVec.toNat_mul, BitVec.toNat_add, BitVec.toNat_setWidth, decide_eq_true_eq]
  generalize hp : i.toNat * c.toNat = p at *
  have e1 : i.toNat % 2 ^ 64 = i.toNat := Nat.mod_eq_of_lt (by omega)
  have e2 : c.toNat % 2 ^ 64 = c.toNat := Nat.mod_eq_of_lt (by omega)
  have e3 : n.toNat % 2 ^ 64 = n.toNat := Nat.mod_eq_of_lt (by omega)
  simp only [e1, e2, e3, hp]
  have e4 : p % 2 ^ 64 = p := Nat.mod_eq_of_lt (by omega)
  have e5 : (p + c.toNat) % 2 ^ 64 = p + c.toNat := Nat.mod_eq_of_lt (by omega)
  simp only [e4, e5]
  (repeat' split) <;> simp_all [BitVec.toNat_setWidth] <;> omega

/-! ### C14 — `chain.higherPriority` -/

/-- embedding of the model's outcome type into the translated `error` -/
def prioErr : Pool.Prio → Option String
  | .ok => none | .ratioWorse => some "ErrPlasmaRatioIsWorse" | .hashTieBreak => some "ErrHashTieBreak"

theorem higherPriority_translation_refines_model (a b : Pool.Blk)
    (ha : a.total < two64) (hab : a.base < two64) (hb : b.total < two64) (hbb : b.base < two64) :
    Translated.higherPriority (BitVec.ofNat 64 a.base) a.hash (BitVec.ofNat 64 a.total)
        (BitVec.ofNat 64 b.base) b.hash (BitVec.ofNat 64 b.total)
      = prioErr (Pool.higherPriority a b) := by
  unfold Translated.higherPriority Pool.higherPriority
  simp only [two64] at *
  simp only [bytesCompare_gt_m1, BitVec.lt_def, BitVec.toNat_mul, BitVec.toNat_ofNat, beq_iff_eq, ← BitVec.toNat_inj,
    decide_eq_true_eq, Bool.and_eq_true, Nat.reducePow, Nat.mod_eq_of_lt ha, Nat.mod_eq_of_lt hab, Nat.mod_eq_of_lt hb,
    Nat.mod_eq_of_lt hbb]
  by_cases h1 : a.total * b.base % 18446744073709551616 < b.total * a.base % 18446744073709551616 <;>
  by_cases h2 : a.total * b.base % 18446744073709551616 = b.total * a.base % 18446744073709551616 <;>
  cases hlt : bytesLt a.hash b.hash <;> simp [h1, h2, prioErr] <;> omega

example : ∃ a b : Pool.Blk, a.total < two64 ∧ a.base < two64 ∧ b.total < two64 ∧ b.base < two64 :=
  ⟨⟨1, [1], [0], 5, 7, 0⟩, ⟨1, [2], [0], 5, 7, 0⟩, by decide⟩

/-! ### C12 — plasma arithmetic and the PoW target -/

theorem DifficultyToPlasma_translation_refines_model (d : BitVec 64) :
    (Translated.DifficultyToPlasma d).toNat = Pow.difficultyToPlasma d.toNat := by
  unfold Translated.DifficultyToPlasma Pow.difficultyToPlasma
  simp only [Gen.MaxDifficultyForAccountBlock, Gen.MaxPoWPlasmaForAccountBlock, Gen.PoWDifficultyPerPlasma,
    beq_iff_eq, decide_eq_true_eq, gt_iff_lt, BitVec.lt_def, BitVec.toNat_eq, BitVec.toNat_ofNat]
  (repeat' split) <;> simp_all [BitVec.toNat_udiv] <;> omega

theorem GetDifficultyForPlasma_translation_refines_model (p : BitVec 64) :
    Translated.GetDifficultyForPlasma p = (match Pow.difficultyForPlasma p.toNat with
      | none => (0#64, some "ErrForbiddenParam")
      | some v => (BitVec.ofNat 64 v, none)) := by
  unfold Translated.GetDifficultyForPlasma Pow.difficultyForPlasma
  simp only [Gen.MaxPoWPlasmaForAccountBlock, Gen.PoWDifficultyPerPlasma, two64,
    beq_iff_eq, decide_eq_true_eq, gt_iff_lt, BitVec.lt_def, BitVec.toNat_eq, BitVec.toNat_ofNat]
  (repeat' split) <;> simp_all <;> (try omega)
  all_goals (apply BitVec.eq_of_toNat_eq; simp [BitVec.toNat_mul]; omega)

end ZV.Translated
