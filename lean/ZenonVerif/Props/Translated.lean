import ZenonVerif.Gen.Translated
import ZenonVerif.Lemmas.GoSem
import ZenonVerif.Model.Rpc
import ZenonVerif.Model.Pool
import ZenonVerif.Model.Pow
import ZenonVerif.Model.Proto
import ZenonVerif.Model.Consensus
import ZenonVerif.Model.Rewards
import ZenonVerif.Props.C18
import ZenonVerif.Props.C14
/-
L12 — the TRANSLATED definitions (Gen/Translated.lean, regenerated from the Go text of /repo on every run by
harness/cmd/zvh/f_translate.go) refine the hand-written models. Every `…_translation_refines_model` theorem is re-checked
against what the code says NOW: an edit of the Go function that changes its input/output behaviour breaks the theorem, a
behaviour-preserving rewrite inside the subset does not have to. A function that leaves the translated subset turns into
`<name>_UNTRANSLATABLE` and the theorem about `<name>` no longer elaborates.
The `…_translated_…` corollaries restate key property clauses directly on the code's own text.
-/
namespace ZV.Translated
open ZV ZV.Gen ZV.Go

/-- nothing was refused by the translator -/
theorem all_translated : Translated.untranslatableNames = [] := by decide

/-! ### C18 — `api.GetRange` -/

theorem GetRange_translation_refines_model (i c n : BitVec 32) :
    ((Translated.GetRange i c n).1.toNat, (Translated.GetRange i c n).2.toNat)
      = Rpc.getRange i.toNat c.toNat n.toNat := by
  have hm := mul32_lt i.toNat c.toNat i.isLt c.isLt
  have hc := c.isLt
  have hn := n.isLt
  unfold Translated.GetRange Rpc.getRange
  simp only [ge_iff_le, gt_iff_lt, BitVec.le_def, BitVec.lt_def, BitVec.toNat_mul, BitVec.toNat_add, BitVec.toNat_setWidth,
    decide_eq_true_eq]
  generalize hp : i.toNat * c.toNat = p at *
  have e1 : i.toNat % 2 ^ 64 = i.toNat := Nat.mod_eq_of_lt (by omega)
  have e2 : c.toNat % 2 ^ 64 = c.toNat := Nat.mod_eq_of_lt (by omega)
  have e3 : n.toNat % 2 ^ 64 = n.toNat := Nat.mod_eq_of_lt (by omega)
  simp only [e1, e2, e3, hp]
  have e4 : p % 2 ^ 64 = p := Nat.mod_eq_of_lt (by omega)
  have e5 : (p + c.toNat) % 2 ^ 64 = p + c.toNat := Nat.mod_eq_of_lt (by omega)
  simp only [e4, e5]
  (repeat' split) <;> simp_all [BitVec.toNat_setWidth] <;> omega

/-! ### C14 — `chain.higherPriority` -/

/-- embedding of the model's outcome type into the translated `error` -/
def prioErr : Pool.Prio → Option String
  | .ok => none | .ratioWorse => some "ErrPlasmaRatioIsWorse" | .hashTieBreak => some "ErrHashTieBreak"

theorem higherPriority_translation_refines_model (a b : Pool.Blk)
    (ha : a.total < two64) (hab : a.base < two64) (hb : b.total < two64) (hbb : b.base < two64) :
    Translated.higherPriority (BitVec.ofNat 64 a.base) a.hash (BitVec.ofNat 64 a.total)
        (BitVec.ofNat 64 b.base) b.hash (BitVec.ofNat 64 b.total)
      = prioErr (Pool.higherPriority a b) := by
  unfold Translated.higherPriority Pool.higherPriority
  simp only [two64] at *
  simp only [bytesCompare_gt_m1, BitVec.lt_def, BitVec.toNat_mul, BitVec.toNat_ofNat, beq_iff_eq, ← BitVec.toNat_inj,
    decide_eq_true_eq, Bool.and_eq_true, Nat.reducePow, Nat.mod_eq_of_lt ha, Nat.mod_eq_of_lt hab, Nat.mod_eq_of_lt hb,
    Nat.mod_eq_of_lt hbb]
  by_cases h1 : a.total * b.base % 18446744073709551616 < b.total * a.base % 18446744073709551616 <;>
  by_cases h2 : a.total * b.base % 18446744073709551616 = b.total * a.base % 18446744073709551616 <;>
  cases hlt : bytesLt a.hash b.hash <;> simp [h1, h2, prioErr] <;> omega

example : ∃ a b : Pool.Blk, a.total < two64 ∧ a.base < two64 ∧ b.total < two64 ∧ b.base < two64 :=
  ⟨⟨1, [1], [0], 5, 7, 0⟩, ⟨1, [2], [0], 5, 7, 0⟩, by decide⟩

/-! ### C12 — plasma arithmetic and the PoW target -/

theorem DifficultyToPlasma_translation_refines_model (d : BitVec 64) :
    (Translated.DifficultyToPlasma d).toNat = Pow.difficultyToPlasma d.toNat := by
  unfold Translated.DifficultyToPlasma Pow.difficultyToPlasma
  simp only [Gen.MaxDifficultyForAccountBlock, Gen.MaxPoWPlasmaForAccountBlock, Gen.PoWDifficultyPerPlasma,
    beq_iff_eq, decide_eq_true_eq, gt_iff_lt, BitVec.lt_def, BitVec.toNat_eq, BitVec.toNat_ofNat]
  (repeat' split) <;> simp_all [BitVec.toNat_udiv] <;> omega

theorem GetDifficultyForPlasma_translation_refines_model (p : BitVec 64) :
    Translated.GetDifficultyForPlasma p = (match Pow.difficultyForPlasma p.toNat with
      | none => (0#64, some "ErrForbiddenParam")
      | some v => (BitVec.ofNat 64 v, none)) := by
  unfold Translated.GetDifficultyForPlasma Pow.difficultyForPlasma
  simp only [Gen.MaxPoWPlasmaForAccountBlock, Gen.PoWDifficultyPerPlasma, two64,
    beq_iff_eq, decide_eq_true_eq, gt_iff_lt, BitVec.lt_def, BitVec.toNat_eq, BitVec.toNat_ofNat]
  (repeat' split) <;> simp_all <;> (try omega)
  all_goals (apply BitVec.eq_of_toNat_eq; simp [BitVec.toNat_mul]; omega)

theorem FussedAmountToPlasma_translation_refines_model (a : Int) :
    Translated.FussedAmountToPlasma (some a) = .ok (BitVec.ofNat 64 (Pow.fusedAmountToPlasma a)) := by
  have key : Translated.FussedAmountToPlasma (some a) = if a ≤ 0 then .ok 0#64
      else if 500000000000 ≤ a then .ok 10500000#64 else .ok (bigUint64 a / 100000000#64 * 2100#64) := by
    unfold Translated.FussedAmountToPlasma
    simp only [Option.isNone_some, Option.getD_some, Bool.not_false, Bool.and_false, Bool.false_or, Bool.false_eq_true,
      if_false, bigSign_le0, bigCmp_ge0, decide_eq_true_eq, Translated.vm_constants_MaxFussedAmountForAccountBig_init]
  have hM : ((Gen.MaxFussedAmountForAccountBig : Nat) : Int) = 500000000000 := by decide
  rw [key]; unfold Pow.fusedAmountToPlasma
  by_cases h1 : a ≤ 0
  · rw [if_pos h1, if_pos h1]
  · rw [if_neg h1, if_neg h1]
    by_cases h2 : (500000000000 : Int) ≤ a
    · rw [if_pos h2, if_pos (by omega)]; simp [Gen.MaxFusionPlasmaForAccount]
    · rw [if_neg h2, if_neg (by omega)]
      refine congrArg Res.ok (BitVec.eq_of_toNat_eq ?_)
      have hn : a.natAbs = a.toNat := by omega
      simp only [bigUint64, hn, BitVec.toNat_mul, BitVec.toNat_udiv, BitVec.toNat_ofNat, Nat.reducePow, Nat.reduceMod,
        Gen.CostPerFusionUnit, Gen.PlasmaPerFusionUnit, two64]

theorem FussedAmountToPlasma_nil : Translated.FussedAmountToPlasma none = .ok 0#64 := by decide

theorem getHashes_cap_translation_refines_model (amount : BitVec 64) :
    Translated.getHashes_cap amount = .ok (BitVec.ofNat 64 (Proto.capHash amount.toNat)) := by
  unfold Translated.getHashes_cap Proto.capHash
  simp only [Translated.protocol_downloader_MaxHashFetch_init, Gen.MaxHashFetch, gt_iff_lt, BitVec.lt_def,
    decide_eq_true_eq, BitVec.toNat_ofNat]
  (repeat' split) <;> simp_all <;> omega

theorem fromNumber_cap_translation_refines_model (amount : BitVec 64) :
    Translated.fromNumber_cap amount = .ok (BitVec.ofNat 64 (Proto.capHash amount.toNat)) := by
  unfold Translated.fromNumber_cap Proto.capHash
  simp only [Translated.protocol_downloader_MaxHashFetch_init, Gen.MaxHashFetch, gt_iff_lt, BitVec.lt_def,
    decide_eq_true_eq, BitVec.toNat_ofNat]
  (repeat' split) <;> simp_all <;> omega

theorem fromNumber_lastNumber_translation_refines_model (number amount : BitVec 64) :
    (Translated.fromNumber_lastNumber number amount).toNat
      = Proto.sub64 (Proto.u64 (number.toNat + amount.toNat)) 1 := by
  unfold Translated.fromNumber_lastNumber Proto.sub64 Proto.u64
  simp only [two64]
  by_cases h : 1 ≤ (number.toNat + amount.toNat) % 18446744073709551616 <;> simp only [h, if_true, if_false] <;> bv_omega

theorem fromNumber_available_translation_refines_model (lastHeight number amount : BitVec 64) :
    Translated.fromNumber_available lastHeight number amount
      = .ok (BitVec.ofNat 64 (let available := Proto.u64 (Proto.sub64 lastHeight.toNat number.toNat + 1)
                               if available < amount.toNat then available else amount.toNat)) := by
  unfold Translated.fromNumber_available Proto.sub64 Proto.u64
  simp only [two64, BitVec.lt_def, decide_eq_true_eq]
  (repeat' split) <;> congr 1 <;> bv_omega

theorem fromNumber_beyond_translation_refines_model (lastHeight number : BitVec 64) :
    Translated.fromNumber_beyond lastHeight number
      = if lastHeight.toNat < number.toNat then .exit 0 else .ok () := by
  unfold Translated.fromNumber_beyond
  simp only [BitVec.lt_def, decide_eq_true_eq]

theorem tdiv_nat (n d : Nat) : Int.tdiv (n : Int) (d : Int) = ((n / d : Nat) : Int) := (Int.ofNat_tdiv n d).symm

theorem getTargetByDifficulty_translation_refines_model (d : BitVec 64) :
    Translated.getTargetByDifficulty d = .ok (Pow.targetBytes d.toNat) := by
  unfold Translated.getTargetByDifficulty Pow.targetBytes Pow.target
  by_cases h0 : d = 0#64
  · subst h0; simp [zero8_eq]
  · have hd : 0 < d.toNat := by
      rcases Nat.eq_zero_or_pos d.toNat with h | h
      · exact absurd (BitVec.eq_of_toNat_eq (by simpa using h)) h0
      · exact h
    have hne : d.toNat ≠ 0 := by omega
    have hq : two64 / d.toNat ≤ two64 := Nat.div_le_self _ _
    have e : Go.bigExp Translated.common_Big2_init Translated.common_Big64_init = ((two64 : Nat) : Int) := by decide
    have hz : (Go.bigOfU64 d == 0) = false := by simp [bigOfU64]; omega
    simp only [beq_iff_eq, h0, if_false, hne, e, hz, Bool.false_eq_true, le8_eq]
    refine congrArg Res.ok (congrArg (leBytes 8) ?_)
    simp only [bigOfU64, bigQuo, tdiv_nat, bigUint64, BitVec.toNat_ofNat]
    have : ((two64 : Nat) : Int) - ((two64 / d.toNat : Nat) : Int) = ((two64 - two64 / d.toNat : Nat) : Int) := by omega
    rw [this, Int.natAbs_natCast]
    simp [two64]

theorem GetThresholdByDifficulty_translation_refines_model (d : Nat) (hd : 0 < d) :
    Translated.GetThresholdByDifficulty (some (d : Int)) = .ok (BitVec.ofNat 64 (Pow.target d)) := by
  unfold Translated.GetThresholdByDifficulty Pow.target
  have hne : d ≠ 0 := by omega
  have hq : two64 / d ≤ two64 := Nat.div_le_self _ _
  have e : Go.bigExp (2 : Int) (64 : Int) = ((two64 : Nat) : Int) := by decide
  have hz : (((d : Int)) == 0) = false := by simp; omega
  simp only [Option.isNone_some, Option.getD_some, Bool.not_false, if_true, Bool.false_or, e, hz, Bool.false_eq_true,
    if_false, hne]
  refine congrArg Res.ok ?_
  simp only [bigQuo, tdiv_nat, bigUint64]
  have : ((two64 : Nat) : Int) - ((two64 / d : Nat) : Int) = ((two64 - two64 / d : Nat) : Int) := by omega
  rw [this, Int.natAbs_natCast]
  apply BitVec.eq_of_toNat_eq
  simp [two64]

theorem GetThresholdByDifficulty_panics : Translated.GetThresholdByDifficulty none = .panic ∧
    Translated.GetThresholdByDifficulty (some 0) = .panic := by decide

/-- `ticker.ToTick`, integer part: the two float→integer conversions are inputs -/
theorem ToTick_translation_refines_model (subSec iv : BitVec 64) :
    Translated.ToTick subSec iv = (if iv.toNat = 0 then .panic else .ok (BitVec.ofNat 64 (subSec.toNat / iv.toNat))) := by
  unfold Translated.ToTick
  by_cases h : iv = 0#64
  · subst h; simp
  · have : iv.toNat ≠ 0 := fun hh => h (BitVec.eq_of_toNat_eq (by simpa using hh))
    simp only [beq_iff_eq, h, if_false, this]
    refine congrArg Res.ok (BitVec.eq_of_toNat_eq ?_)
    have := Nat.div_le_self subSec.toNat iv.toNat
    have hs := subSec.isLt
    have hlt : subSec.toNat / iv.toNat < 2 ^ 64 := by omega
    simp only [BitVec.toNat_udiv, BitVec.toNat_ofNat, Nat.mod_eq_of_lt hlt]

theorem MinInt64_translation_refines_model (x y : BitVec 64) :
    (Translated.MinInt64 x y).toInt = min x.toInt y.toInt := by
  unfold Translated.MinInt64; simp only [decide_eq_true_eq]; split <;> omega

theorem MaxInt64_translation_refines_model (x y : BitVec 64) :
    (Translated.MaxInt64 x y).toInt = max x.toInt y.toInt := by
  unfold Translated.MaxInt64; simp only [decide_eq_true_eq]; split <;> omega

theorem toInt_sub_wrap (a b : BitVec 64) : (a - b).toInt = Rewards.wrap64 (a.toInt - b.toInt) := by
  rw [BitVec.toInt_sub, Int.bmod_def]; unfold Rewards.wrap64; simp only [two63, two64]; split <;> omega

theorem getWeightedStake_translation_refines_model (revoke start : BitVec 64) (w : Int) (s e : BitVec 64) :
    Translated.getWeightedStake revoke start w s e
      = Rewards.weightedStake start.toInt revoke.toInt w s.toInt e.toInt := by
  unfold Translated.getWeightedStake Rewards.weightedStake
  have h0 : (revoke != 0#64) = true ↔ revoke.toInt ≠ 0 := by
    simp only [bne_iff_ne, ne_eq, ← BitVec.toInt_inj]; rfl
  simp only [h0, decide_eq_true_eq, bigOfI64, toInt_sub_wrap, MinInt64_translation_refines_model,
    MaxInt64_translation_refines_model, ge_iff_le]
  (repeat' split) <;> simp_all <;> omega

theorem momentumsPage_eq_accountBlocksPage : Translated.momentumsPage = Translated.accountBlocksPage := rfl

theorem ToTime_offsets_translation_pinned (iv tick : BitVec 64) :
    Translated.ToTime_startOffset iv tick = iv * tick ∧ Translated.ToTime_endOffset iv tick = iv * (tick + 1#64) := ⟨rfl, rfl⟩

theorem rewardHistoryFirstEpoch_translation_pinned (last : BitVec 64) (i c : BitVec 32) :
    Translated.rewardHistoryFirstEpoch last i c = last - BitVec.setWidth 64 i * BitVec.setWidth 64 c := rfl

theorem toInt_mul_wrap (a b : BitVec 64) : (a * b).toInt = Rewards.mul64 a.toInt b.toInt := by
  rw [BitVec.toInt_mul, Int.bmod_def]; unfold Rewards.mul64 Rewards.wrap64; simp only [two63, two64]
  generalize a.toInt * b.toInt = p
  split <;> omega

theorem getWeightedSentinel_translation_refines_model (reg revoke s e : BitVec 64) :
    Translated.getWeightedSentinel reg revoke s e
      = Rewards.weightedSentinel reg.toInt revoke.toInt s.toInt e.toInt := by
  unfold Translated.getWeightedSentinel Rewards.weightedSentinel
  have h0 : (revoke != 0#64) = true ↔ revoke.toInt ≠ 0 := by
    simp only [bne_iff_ne, ne_eq, ← BitVec.toInt_inj]; rfl
  have h90 : (90#64).toInt = 90 := by decide
  have h100 : (100#64).toInt = 100 := by decide
  simp only [h0, decide_eq_true_eq, toInt_sub_wrap, toInt_mul_wrap, h90, h100, MinInt64_translation_refines_model,
    MaxInt64_translation_refines_model, ge_iff_le, Translated.common_Big0_init, Translated.common_Big1_init]
  (repeat' split) <;> simp_all <;> omega

/-- C18 on the code's own text: the slice `GetRange` answers lies inside the list, whatever the 32-bit inputs -/
theorem getRange_translated_bounds (i c n : BitVec 32) :
    (Translated.GetRange i c n).1.toNat ≤ (Translated.GetRange i c n).2.toNat ∧
    (Translated.GetRange i c n).2.toNat ≤ n.toNat := by
  have h := GetRange_translation_refines_model i c n
  have hb := C18.get_range_bounds i.toNat c.toNat n.toNat
  rw [← h] at hb
  exact ⟨hb.1, hb.2.1⟩

/-- C14 on the code's own text: two blocks cannot each have the higher priority -/
theorem higherPriority_translated_antisymm (a b : Pool.Blk)
    (ha : a.total < two64) (hab : a.base < two64) (hb : b.total < two64) (hbb : b.base < two64)
    (h : Translated.higherPriority (BitVec.ofNat 64 a.base) a.hash (BitVec.ofNat 64 a.total)
        (BitVec.ofNat 64 b.base) b.hash (BitVec.ofNat 64 b.total) = none) :
    Translated.higherPriority (BitVec.ofNat 64 b.base) b.hash (BitVec.ofNat 64 b.total)
        (BitVec.ofNat 64 a.base) a.hash (BitVec.ofNat 64 a.total) ≠ none := by
  rw [higherPriority_translation_refines_model a b ha hab hb hbb] at h
  rw [higherPriority_translation_refines_model b a hb hbb ha hab]
  have h1 : Pool.higherPriority a b = .ok := by
    cases hh : Pool.higherPriority a b <;> simp [hh, prioErr] at h ⊢
  have h2 := C14.priority_antisymm a b h1
  cases hh : Pool.higherPriority b a <;> simp_all [prioErr]

/-- C15 on the code's own text: the amount the hash handlers pass on never exceeds MaxHashFetch -/
theorem caps_translated_le (amount : BitVec 64) :
    ∃ v, Translated.getHashes_cap amount = .ok v ∧ Translated.fromNumber_cap amount = .ok v ∧ v.toNat ≤ Gen.MaxHashFetch := by
  refine ⟨_, getHashes_cap_translation_refines_model amount, fromNumber_cap_translation_refines_model amount, ?_⟩
  have := amount.isLt
  unfold Proto.capHash; simp only [BitVec.toNat_ofNat]
  by_cases h : amount.toNat > Gen.MaxHashFetch
  · rw [if_pos h]; simp [Gen.MaxHashFetch]
  · rw [if_neg h]; simp only [Gen.MaxHashFetch] at h ⊢; omega

/-- C15: the `available` clamp only ever reduces the (already capped) amount -/
theorem fromNumber_available_translated_le (lastHeight number amount : BitVec 64) :
    ∃ v, Translated.fromNumber_available lastHeight number amount = .ok v ∧ v.toNat ≤ amount.toNat := by
  refine ⟨_, fromNumber_available_translation_refines_model lastHeight number amount, ?_⟩
  simp only [BitVec.toNat_ofNat]; split <;> omega

/-- C12 on the code's own text: PoW plasma never exceeds the per-block maximum -/
theorem DifficultyToPlasma_translated_le (d : BitVec 64) :
    (Translated.DifficultyToPlasma d).toNat ≤ Gen.MaxPoWPlasmaForAccountBlock := by
  rw [DifficultyToPlasma_translation_refines_model]; unfold Pow.difficultyToPlasma
  by_cases h0 : d.toNat = 0
  · rw [if_pos h0]; omega
  · rw [if_neg h0]
    by_cases h1 : d.toNat > Gen.MaxDifficultyForAccountBlock
    · rw [if_pos h1]; omega
    · rw [if_neg h1]; simp only [Gen.MaxDifficultyForAccountBlock, Gen.MaxPoWPlasmaForAccountBlock, Gen.PoWDifficultyPerPlasma] at h1 ⊢
      omega

/-- the page request of `GetAccountBlocksByPage` / `GetMomentumsByPage` at the machine level (shape of `Rpc.pageRequest`) -/
def pageSpec (H : BitVec 64) (i c : BitVec 32) : Res (BitVec 64 × BitVec 64) :=
  let start := H - BitVec.setWidth 64 (i + 1#32) * BitVec.setWidth 64 c + 1#64
  let count := BitVec.setWidth 64 c
  let tooMuch := 1#64 - start
  let start' := if tooMuch.toInt > 0 then 1#64 else start
  let count' := if tooMuch.toInt > 0 then count - tooMuch else count
  if count'.toInt < 1 then .exit 0 else .ok (start', count')

theorem accountBlocksPage_translation_pinned_partial (H : BitVec 64) (i c : BitVec 32) :
    Translated.accountBlocksPage H i c = pageSpec H i c := by
  unfold Translated.accountBlocksPage pageSpec
  have h0 : (0#64).toInt = 0 := by decide
  have h1 : (1#64).toInt = 1 := by decide
  simp only [h0, h1, decide_eq_true_eq]
  (repeat' split) <;> simp_all

theorem getWeightedStakeAmount_translation_pinned_partial (amount : Int) (t : BitVec 64) :
    Translated.getWeightedStakeAmount amount t
      = .ok (((9#64 + BitVec.sdiv t (BitVec.ofNat 64 Gen.StakeTimeUnitSec.toNat)).toInt * amount) / 10) := by
  unfold Translated.getWeightedStakeAmount
  simp [Translated.vm_constants_StakeTimeUnitSec_init, bigOfI64, bigDiv, Gen.StakeTimeUnitSec]
  rfl

/-- `TickMultiplier`, after the four instants are read: the multiplier is reported only when the bigger duration is a
    whole multiple of the smaller one; a zero callee duration panics (integer divide by zero) -/
theorem TickMultiplier_tail_translation_refines_spec (cE cS bE bS : BitVec 64) :
    Translated.TickMultiplier_tail cE cS bE bS =
      (let c := cE - cS; let b := bE - bS
       if c.toInt > b.toInt then .ok (0#64, some "errorf")
       else if c = 0#64 then .panic
       else if BitVec.srem b c ≠ 0#64 then .ok (0#64, some "errorf")
       else .ok (BitVec.sdiv b c, none)) := by
  unfold Translated.TickMultiplier_tail
  simp only [decide_eq_true_eq, beq_iff_eq, bne_iff_ne]
  (repeat' split) <;> simp_all

end ZV.Translated
