import ZenonVerif.Lemmas.NodeReorg
import ZenonVerif.Props.C02Node
import ZenonVerif.Gen.NodeReorg
import ZenonVerif.Gen.NodeCache
/-
C06 / C02 / C16 at the level of the node, in ONE state machine (`Model/NodeReorg.lean`): the node of `Props/C02Node.lean`
(accepted history + unconfirmed pool, the VM an arbitrary parameter `exec`) whose delivery operation is the whole
`chainBridge.InsertChain` — skip loop, side-chain tests (link, window, strictly longer), `RollbackTo` with the pool
dropped, insert loop stopping at the first failure. Every theorem is for every `exec` / `pack` / `hash` / `mvalid` /
`prio` and for every operation sequence: gossip of arbitrary blocks, deliveries that extend, reorganise (any number of
times), are refused, or fail half-way before or after a rollback, and restarts.

What is assumed, and where: about the VM nothing; about block identifiers no collision among the blocks that occur
(`NoCollision`, as in C02Node — wherever a node recognises a block by its identifier); about the changes hash nothing.
Consensus statistics and the versioned store's views are `Props/C06Node.lean` / `Props/C06.lean`; here "historical view" is
`ledgerAt` (the ledger as of a momentum of the chain).
-/
namespace ZV.C06Reorg
open ZV ZV.NodeSync ZV.NodeReorg ZV.C02Node

variable {P L : Type}

/-- C06 `no_trace_of_abandoned_branch`: for every reachable node — whatever it accepted and abandoned before — the stored
    history (every momentum with its transactions, the patch of every block, the patch of every momentum), hence the
    frontier ledger, the ledger as of every momentum (`ledgerAt`), the confirmed account chains and the chain itself,
    equal those of a node that was given ONLY the final chain, in one batch, from genesis (`served` = what the node serves to
    a syncing peer: `GetBlock` of every momentum of its chain). Everything observable except the pool is a function of
    the current chain alone; this generalises `C02Node.ledger_schedule_independent` from "same accepted sequence" to "same
    current chain". The delivery to the fresh node is accepted completely. -/
theorem no_trace_of_abandoned_branch (W : VM P L) (ops : List NodeReorg.Op) (hcol : NoCollision (opBlocksR ops)) :
    (deliverR W false Node.init (served (runR W ops).hist)).2 = .ok ∧
    (runR W [.deliver (served (runR W ops).hist)]).hist = (runR W ops).hist ∧
    (runR W [.deliver (served (runR W ops).hist)]).chain = (runR W ops).chain ∧
    ledger W (runR W [.deliver (served (runR W ops).hist)]).hist = ledger W (runR W ops).hist ∧
    (∀ x, ledgerAt W (runR W [.deliver (served (runR W ops).hist)]).hist x = ledgerAt W (runR W ops).hist x) ∧
    (∀ a, conf W (runR W [.deliver (served (runR W ops).hist)]).hist a = conf W (runR W ops).hist a) := by
  let U : Block → Prop := fun b => b ∈ opBlocksR ops
  have hi := runR_inv W U ops (fun b hb => hb)
  obtain ⟨q, hq, _⟩ := replay_served (U := U) (fun b b' hb hb' => hcol b hb b' hb') _
    hi.base.hist hi.base.hash hi.chain hi.base.blocks.2
  have hd := deliverR_served (W := W) false hi.chain
  have e : (runR W [.deliver (served (runR W ops).hist)]).hist = (runR W ops).hist := by
    show ((deliverR W false Node.init (served (runR W ops).hist)).1).hist = _
    rw [hd, hq]
  refine ⟨by rw [hd, hq], e, by simp only [Node.chain, e], by rw [e], fun _ => by rw [e], fun _ => by rw [e]⟩

/-- C06 `pool_after_reorg_sound`: `C02Node.pool_patches_sound` in every reachable state of the extended model, with respect
    to the CURRENT chain — each pooled `(b, p)` sits in its account's stack, links to the transaction below it (or to
    the confirmed frontier of the current chain), `b.ack` is a momentum of the current chain and `p` is `exec` on the
    ledger as of it and the account chain up to `b.prev`. No pooled patch computed against an abandoned momentum
    survives a reorganisation: `RollbackTo` drops the pool, and a block that acknowledges an abandoned momentum cannot
    enter it afterwards (`ledgerAt … = some l` is part of the conclusion). -/
theorem pool_after_reorg_sound (W : VM P L) (ops : List NodeReorg.Op) (a : Nat) (below above : List (Tx P)) (b : Block) (p : P)
    (h : (runR W ops).pool a = below ++ (b, p) :: above) :
    b.acct = a ∧ b.prev = lastId (conf W (runR W ops).hist a ++ below) ∧
      ∃ l, ledgerAt W (runR W ops).hist b.ack = some l ∧
        W.exec l (conf W (runR W ops).hist a ++ below) b = some p := by
  have hi := (runR_inv W (fun _ => True) ops (fun _ _ => trivial)).base
  obtain ⟨hacct, hst⟩ := hi.pool a
  rw [h] at hacct hst
  obtain ⟨hprev, _, hex⟩ := (StackSound.append.1 hst).2.1
  exact ⟨hacct (b, p) (by simp), hprev, hex⟩

/-- the same for what is stored: after any number of reorganisations every stored momentum's transactions are
    exec-determined in their stated contexts on the chain below it, its patch is `pack` of them and hashes to its changes
    hash; every stored momentum names the one below it, carries its position as height and passed `mvalid` there -/
theorem confirmed_after_reorg_sound (W : VM P L) (ops : List NodeReorg.Op) :
    HistSound W (runR W ops).hist ∧ HashOk W (runR W ops).hist ∧ ChainOk W (runR W ops).hist :=
  let hi := runR_inv W (fun _ => True) ops (fun _ _ => trivial)
  ⟨hi.base.hist, hi.base.hash, hi.chain⟩

/-- C16 at node level with the real verification loop instead of an oracle (`_partial`: what `exec` / `mvalid` stand for —
    the verifier's checks themselves — is C03 / C05; downloader / fetcher are not modelled). If `InsertChain` returns nil on
    a reachable node, then with `todo` = the batch behind its known prefix and `k` = the number of own momentums
    abandoned: `k` is at most the window constant of the code (and at most the chain), EVERY momentum of `todo` passed
    `stepR` in order on the state it extends, starting from the node rolled back by `k` (`Steps`: block loop with `exec` on
    the stated context, content consumed from the pool, changes hash recomputed and compared), the new chain is exactly
    fork-prefix + `todo`, and if anything was abandoned (`k > 0`) the new chain is STRICTLY LONGER than the old one. -/
theorem reorg_only_to_longer_verified_chain_partial (W : VM P L) (ops : List NodeReorg.Op) (batch : List DM) (s' : Node P)
    (h : deliverR W false (runR W ops) batch = (s', .ok)) :
    ∃ k, k ≤ Gen.InsertChainWindow ∧ k ≤ (runR W ops).hist.length ∧
      Steps W (rollback false (runR W ops) k) (batch.dropWhile (fun d => knownR W (runR W ops).hist d.m)) s' ∧
      s'.chain = ((batch.dropWhile (fun d => knownR W (runR W ops).hist d.m)).map (·.m)).reverse ++
        (runR W ops).chain.drop k ∧
      (0 < k → (runR W ops).hist.length < s'.hist.length) := by
  generalize runR W ops = s at h ⊢
  rcases deliverR_cases W false s batch with ⟨hto, hr⟩ | ⟨head, more, hto, _, hr⟩
  · rw [hr] at h
    simp only [Prod.mk.injEq, and_true] at h
    subst h
    rw [hto]
    exact ⟨0, Nat.zero_le _, Nat.zero_le _, rfl, by simp, fun h0 => absurd h0 (Nat.lt_irrefl _)⟩
  · rw [hto]
    rcases hr with ⟨_, hr⟩ | ⟨_, _, hr⟩ | ⟨k, _, hk, hw, hb, hlong, hr⟩
    · rw [hr] at h
      obtain ⟨n, s1, _, hs, hres⟩ := loopR_spec _ h
      rcases hres with ⟨_, hn, rfl⟩ | ⟨_, _, hv, _⟩
      · rw [hn, List.take_length] at hs
        refine ⟨0, Nat.zero_le _, Nat.zero_le _, hs, ?_, fun h0 => absurd h0 (Nat.lt_irrefl _)⟩
        rw [(Steps.chain _ hs).1]; simp
      · cases hv
    · rw [h] at hr
      rcases hr with hr | hr | ⟨hr, _⟩ <;> cases hr
    · rw [hr] at h
      obtain ⟨n, s1, _, hs, hres⟩ := loopR_spec _ h
      rcases hres with ⟨_, hn, rfl⟩ | ⟨_, _, hv, _⟩
      · rw [hn, List.take_length] at hs
        have hbs := byHeight_some hb
        have hkl : k ≤ s.hist.length := by
          simp only [frontierHeight, genesisHeight] at hk hbs ⊢; omega
        refine ⟨k, hw, hkl, hs, ?_, fun _ => ?_⟩
        · rw [(Steps.chain _ hs).1, rollback_chain]
        · have h1 := Steps.last_height _ hs
          have h2 := (Steps.chain _ hs).2
          rw [rollback_length] at h2
          rw [h1] at hlong
          simp only [frontierHeight, genesisHeight, rollback_length] at hlong
          omega
      · cases hv

/-- C16 `failure_index_exact`: if `InsertChain` on a reachable node fails in its insert loop with index `i`, then — `todo`,
    `k` as above, `n` = number of momentums accepted before the failure — `i = (number of skipped momentums) + n` is the
    position IN THE ORIGINAL BATCH of the first momentum that `stepR` refuses (`batch[i]? = some d`), the `n` momentums
    before it all passed `stepR` in order, and the node holds exactly fork-prefix + that verified prefix: nothing of the
    refused momentum and nothing behind it. -/
theorem failure_index_exact (W : VM P L) (ops : List NodeReorg.Op) (batch : List DM) (s' : Node P) (i : Nat)
    (h : deliverR W false (runR W ops) batch = (s', .verify i)) :
    ∃ k n d s1, k ≤ Gen.InsertChainWindow ∧
      i = (batch.length - (batch.dropWhile (fun d => knownR W (runR W ops).hist d.m)).length) + n ∧
      batch[i]? = some d ∧
      (batch.dropWhile (fun d => knownR W (runR W ops).hist d.m))[n]? = some d ∧
      Steps W (rollback false (runR W ops) k)
        ((batch.dropWhile (fun d => knownR W (runR W ops).hist d.m)).take n) s1 ∧
      stepR W s1 d = (s', false) ∧
      s'.chain = (((batch.dropWhile (fun d => knownR W (runR W ops).hist d.m)).take n).map (·.m)).reverse ++
        (runR W ops).chain.drop k := by
  generalize runR W ops = s at h ⊢
  have hsplit := List.takeWhile_append_dropWhile (p := fun d => knownR W s.hist d.m) (l := batch)
  have hlen : batch.length - (batch.dropWhile (fun d => knownR W s.hist d.m)).length =
      (batch.takeWhile (fun d => knownR W s.hist d.m)).length := by
    have := congrArg List.length hsplit
    simp only [List.length_append] at this
    omega
  have hidx : ∀ n, batch[(batch.takeWhile (fun d => knownR W s.hist d.m)).length + n]? =
      (batch.dropWhile (fun d => knownR W s.hist d.m))[n]? := by
    intro n
    have : (batch.takeWhile (fun d => knownR W s.hist d.m) ++ batch.dropWhile (fun d => knownR W s.hist d.m))[
        (batch.takeWhile (fun d => knownR W s.hist d.m)).length + n]? =
        (batch.dropWhile (fun d => knownR W s.hist d.m))[n]? := by
      rw [List.getElem?_append_right (Nat.le_add_right _ _)]
      congr 1; omega
    rw [hsplit] at this
    exact this
  rcases deliverR_cases W false s batch with ⟨_, hr⟩ | ⟨head, more, hto, _, hr⟩
  · rw [hr] at h; cases h
  · rw [hto] at hlen hidx ⊢
    have fin : ∀ (k : Nat) (t : Node P), t.chain = s.chain.drop k →
        loopR W t (batch.length - (head :: more).length) (head :: more) = (s', .verify i) →
        ∃ n d s1, i = (batch.length - (head :: more).length) + n ∧ batch[i]? = some d ∧
          (head :: more)[n]? = some d ∧ Steps W t ((head :: more).take n) s1 ∧ stepR W s1 d = (s', false) ∧
          s'.chain = (((head :: more).take n).map (·.m)).reverse ++ s.chain.drop k := by
      intro k t ht hl
      obtain ⟨n, s1, _, hs, hres⟩ := loopR_spec _ hl
      rcases hres with ⟨hv, _, _⟩ | ⟨d, hd, hv, hst⟩
      · cases hv
      · simp only [Res.verify.injEq] at hv
        refine ⟨n, d, s1, hv, ?_, hd, hs, hst, ?_⟩
        · rw [hv, hlen, hidx n]; exact hd
        · have : s'.chain = s1.chain := by simp only [Node.chain, stepR_false_hist hst]
          rw [this, (Steps.chain _ hs).1, ht]
    rcases hr with ⟨_, hr⟩ | ⟨_, hu, hr⟩ | ⟨k, _, _, hw, _, _, hr⟩
    · rw [hr] at h
      obtain ⟨n, d, s1, a, b, c, e, f, g⟩ := fin 0 s (by simp) h
      exact ⟨0, n, d, s1, Nat.zero_le _, a, b, c, e, f, g⟩
    · rw [h] at hr
      rcases hr with hr | hr | ⟨hr, _⟩ <;> cases hr
    · rw [hr] at h
      obtain ⟨n, d, s1, a, b, c, e, f, g⟩ := fin k _ (rollback_chain s k) h
      exact ⟨k, n, d, s1, hw, a, b, c, e, f, g⟩

/-- the three refusals that precede the rollback leave the node — chain AND pool — exactly as it was, with index 0 -/
theorem refused_before_rollback_unchanged (W : VM P L) (kp : Bool) (s : Node P) (batch : List DM)
    (h : (deliverR W kp s batch).2 = .link ∨ (deliverR W kp s batch).2 = .tooFar ∨
      (deliverR W kp s batch).2 = .notLonger) : (deliverR W kp s batch).1 = s := by
  rcases deliverR_cases W kp s batch with ⟨_, hr⟩ | ⟨head, more, _, _, hr⟩
  · rw [hr]
  · rcases hr with ⟨_, hr⟩ | ⟨_, hu, _⟩ | ⟨k, _, _, _, _, _, hr⟩
    · rw [hr] at h ⊢
      generalize hg : loopR W s _ _ = r at h ⊢
      obtain ⟨s', r'⟩ := r
      obtain ⟨n, s1, _, _, hres⟩ := loopR_spec _ hg
      rcases hres with ⟨hv, _, _⟩ | ⟨_, _, hv, _⟩ <;> (subst hv; simp at h)
    · exact hu
    · rw [hr] at h ⊢
      generalize hg : loopR W (rollback kp s k) _ _ = r at h ⊢
      obtain ⟨s', r'⟩ := r
      obtain ⟨n, s1, _, _, hres⟩ := loopR_spec _ hg
      rcases hres with ⟨hv, _, _⟩ | ⟨_, _, hv, _⟩ <;> (subst hv; simp at h)

/-- C16 `redelivery_idempotent`: delivering again any batch whose momentums are all on the current chain of a reachable
    node — in any order, with repetitions, whatever the pool holds — returns `(0, nil)` and changes nothing, pool included -/
theorem redelivery_idempotent (W : VM P L) (ops : List NodeReorg.Op) (batch : List DM)
    (hon : ∀ d ∈ batch, d.m ∈ (runR W ops).chain) :
    deliverR W false (runR W ops) batch = (runR W ops, .ok) := by
  have hc := (runR_inv W (fun _ => True) ops (fun _ _ => trivial)).chain
  have hk : ∀ d ∈ batch, (fun d => knownR W (runR W ops).hist d.m) d = true := by
    intro d hd
    obtain ⟨e, he, hm⟩ := List.mem_map.1 (hon d hd)
    simp only
    rw [← hm]
    exact hc.known e he
  have hd := dropWhile_all (fun d => knownR W (runR W ops).hist d.m) batch hk
  unfold deliverR
  simp only [hd]

/-- C16 `abandoned_branch_needs_length`: a delivered side chain — the first unknown momentum does not name the frontier as its
    previous; in particular a branch the node abandoned earlier — whose last momentum claims a height that is not above
    the node's frontier is refused without touching the node (chain and pool), whatever it links to and whatever it
    contains: the node goes back to an abandoned branch only if that branch has become strictly longer. For every node
    state, not only reachable ones. -/
theorem abandoned_branch_needs_length (W : VM P L) (kp : Bool) (s : Node P) (batch : List DM) (head : DM)
    (more : List DM) (hto : batch.dropWhile (fun d => knownR W s.hist d.m) = head :: more)
    (hside : head.m.prev ≠ frontierId W s.hist)
    (hlen : ((head :: more).getLastD head).m.height ≤ frontierHeight s.hist) :
    (deliverR W kp s batch).1 = s ∧
      ((deliverR W kp s batch).2 = .link ∨ (deliverR W kp s batch).2 = .tooFar ∨
        (deliverR W kp s batch).2 = .notLonger) := by
  rcases deliverR_cases W kp s batch with ⟨hn, _⟩ | ⟨head', more', hto', _, hr⟩
  · rw [hn] at hto; cases hto
  · rw [hto] at hto'
    simp only [List.cons.injEq] at hto'
    obtain ⟨rfl, rfl⟩ := hto'
    rcases hr with ⟨hp, _⟩ | ⟨_, hu, hr⟩ | ⟨k, _, _, _, _, hlong, _⟩
    · exact absurd hp hside
    · exact ⟨hu, by rcases hr with h | h | ⟨h, _⟩ <;> simp [h]⟩
    · omega

/-- C02 `honest_momentum_accepted_after_reorg`: `C02Node.honest_momentum_accepted` on the reachable states of the extended
    model. A momentum produced on a reachable node (content bottom-up from its own pool, changes hash of the pooled
    patches, numbered frontier + 1) that passes the remaining momentum checks there is accepted by EVERY reachable node
    with the same current chain — whatever branches either node was on before, whatever gossip, refused or half-applied
    deliveries, rollbacks and restarts left in the receiver's pool. -/
theorem honest_momentum_accepted_after_reorg (W : VM P L) (opsP opsT : List NodeReorg.Op)
    (hcol : NoCollision (opBlocksR opsP ++ opBlocksR opsT))
    (m0 : Momentum) (d : DM) (hprod : produce W (runR W opsP) m0 = some d)
    (hheight : m0.height = frontierHeight (runR W opsP).hist + 1)
    (hvalid : W.mvalid (ledger W (runR W opsP).hist) d.m = true)
    (hchain : (runR W opsT).chain = (runR W opsP).chain) :
    (deliverR W false (runR W opsT) [d]).2 = .ok ∧
      (knownR W (runR W opsT).hist d.m = false →
        (deliverR W false (runR W opsT) [d]).1.chain = d.m :: (runR W opsP).chain) := by
  let U : Block → Prop := fun b => b ∈ opBlocksR opsP ++ opBlocksR opsT
  have hinj : ∀ b b', U b → U b' → b.id = b'.id → b = b' := fun b b' hb hb' => hcol b hb b' hb'
  have iP := (runR_inv W U opsP (fun b hb => List.mem_append.2 (Or.inl hb))).base
  have iT := (runR_inv W U opsT (fun b hb => List.mem_append.2 (Or.inr hb))).base
  have e : (runR W opsT).hist = (runR W opsP).hist :=
    hist_det hinj _ _ iT.hist iP.hist iT.blocks.2 iP.blocks.2 hchain
  unfold produce at hprod
  rw [← e] at hprod hvalid hheight
  rw [← hchain]
  split at hprod
  · cases hprod
  · rename_i q txs hq
    simp only [Option.some.injEq] at hprod
    subst hprod
    obtain ⟨c1, _, c3⟩ := consume_sound _ iP.pool hq
    obtain ⟨m1, _⟩ := consume_mem _ hq
    have hu : ∀ x ∈ txs, U x.1 := fun x hx => by obtain ⟨a, ha⟩ := m1 x hx; exact iP.blocks.1 a x ha
    rw [← e] at c1
    exact deliverR_honest hinj iT hu c1 c3 rfl hheight rfl hvalid

/-- C02 / C06 `two_nodes_same_chain_same_everything`: any two reachable nodes — arbitrary, different histories of gossip,
    reorganisations, refused deliveries, restarts — whose CURRENT chains are equal hold the same stored history: same
    transactions, same patch for every block and every momentum; hence equal frontier ledgers, equal ledgers as of every
    momentum and equal confirmed account chains. -/
theorem two_nodes_same_chain_same_everything (W : VM P L) (ops₁ ops₂ : List NodeReorg.Op)
    (hcol : NoCollision (opBlocksR ops₁ ++ opBlocksR ops₂))
    (hchain : (runR W ops₁).chain = (runR W ops₂).chain) :
    (runR W ops₁).hist.map (·.txs) = (runR W ops₂).hist.map (·.txs) ∧
      (runR W ops₁).hist.map (·.patch) = (runR W ops₂).hist.map (·.patch) ∧
      ledger W (runR W ops₁).hist = ledger W (runR W ops₂).hist ∧
      (∀ x, ledgerAt W (runR W ops₁).hist x = ledgerAt W (runR W ops₂).hist x) ∧
      (∀ a, conf W (runR W ops₁).hist a = conf W (runR W ops₂).hist a) := by
  let U : Block → Prop := fun b => b ∈ opBlocksR ops₁ ++ opBlocksR ops₂
  have i1 := (runR_inv W U ops₁ (fun b hb => List.mem_append.2 (Or.inl hb))).base
  have i2 := (runR_inv W U ops₂ (fun b hb => List.mem_append.2 (Or.inr hb))).base
  have e : (runR W ops₁).hist = (runR W ops₂).hist :=
    hist_det (fun b b' hb hb' => hcol b hb b' hb') _ _ i1.hist i2.hist i1.blocks.2 i2.blocks.2 hchain
  rw [e]
  exact ⟨rfl, rfl, rfl, fun _ => rfl, fun _ => rfl⟩

/-- C02 `accepts_same_next`: two reachable nodes with the same current chain accept the same next momentums. If one of
    them accepts the delivered momentum `d` on top of its chain and `d` carries its account blocks in content order (as
    `ChainBridge.GetBlock` serves them), then the other accepts `d` too — whatever its pool holds — and both end with
    the same chain. (Without the order condition acceptance can depend on the pool: `reordered_blocks_need_the_pool`.) -/
theorem accepts_same_next (W : VM P L) (ops₁ ops₂ : List NodeReorg.Op) (d : DM) (s₁' : Node P)
    (hcol : NoCollision (opBlocksR ops₁ ++ opBlocksR ops₂ ++ d.blocks))
    (hchain : (runR W ops₁).chain = (runR W ops₂).chain)
    (horder : d.blocks.map Block.hdr = d.m.content)
    (hacc : stepR W (runR W ops₁) d = (s₁', true)) :
    ∃ s₂', stepR W (runR W ops₂) d = (s₂', true) ∧ s₂'.hist = s₁'.hist := by
  let U : Block → Prop := fun b => b ∈ opBlocksR ops₁ ++ opBlocksR ops₂ ++ d.blocks
  have hinj : ∀ b b', U b → U b' → b.id = b'.id → b = b' := fun b b' hb hb' => hcol b hb b' hb'
  have i1 := runR_inv W U ops₁ (fun b hb => List.mem_append.2 (Or.inl (List.mem_append.2 (Or.inl hb))))
  have i2 := runR_inv W U ops₂ (fun b hb => List.mem_append.2 (Or.inl (List.mem_append.2 (Or.inr hb))))
  have hud : ∀ b ∈ d.blocks, U b := fun b hb => List.mem_append.2 (Or.inr hb)
  have e : (runR W ops₁).hist = (runR W ops₂).hist :=
    hist_det hinj _ _ i1.base.hist i2.base.hist i1.base.blocks.2 i2.base.blocks.2 hchain
  have i1' := stepR_inv hacc hud i1
  obtain ⟨hheight, hm⟩ := stepR_true hacc
  obtain ⟨s1, q, txs, hb, hprev, _, hq, hh, hv, rfl⟩ := stepMomentum_true hm
  have e1 := blockLoop_hist _ hb
  rw [e1] at hprev hh hv
  obtain ⟨_, hts, hcont, _⟩ := i1'.base.hist
  simp only [e1] at hts hcont
  have hutx : ∀ x ∈ txs, U x.1 := fun x hx => i1'.base.blocks.2 _ (List.mem_cons_self ..) x hx
  -- the delivered blocks are the stored transactions' blocks, one by one
  have hblocks : d.blocks = txs.map (·.1) :=
    blocks_eq_of_hdr hinj _ _ (by rw [horder, ← hcont]; simp) hud (by
      intro b hb; obtain ⟨t, ht, rfl⟩ := List.mem_map.1 hb; exact hutx t ht)
  rw [e] at hts hprev hh hv hheight
  obtain ⟨q', hq'⟩ := stepMomentum_honest hinj i2.base hutx hts hcont hprev hh hv
  have hd : d = ⟨d.m, txs.map (·.1)⟩ := by rw [← hblocks]
  refine ⟨{ hist := ⟨d.m, txs, W.pack (ledger W (runR W ops₂).hist) txs⟩ :: (runR W ops₂).hist, pool := q' }, ?_, ?_⟩
  · unfold stepR
    rw [if_pos hheight, hd]
    exact hq'
  · simp [e1, e]

/-! ### negative witnesses and examples (a tiny world: `C02Node.wVM` — patches are numbers, `exec` tags a block with the
frontier of the account chain it ran on, the changes hash is the identity) -/

/-- a momentum without content on top of the node `s`, as an honest producer makes it -/
def wEmpty (s : Node Nat) (id height : Nat) : DM :=
  (produce wVM s { id := id, height := height, prev := 0, content := [], changesHash := 0 }).getD default

/-- branch A: momentums 2, 5 on genesis (= 1) -/
def wA1 : DM := wEmpty Node.init 2 2
def wA2 : DM := wEmpty (runR wVM [.deliver [wA1]]) 5 3
/-- branch B: momentums 3, 4, 6 on genesis -/
def wB1 : DM := wEmpty Node.init 3 2
def wB2 : DM := wEmpty (runR wVM [.deliver [wB1]]) 4 3
def wB3 : DM := wEmpty (runR wVM [.deliver [wB1, wB2]]) 6 4
/-- `wB2` with another changes hash: refused by the comparison -/
def wB2bad : DM := { wB2 with m := { wB2.m with changesHash := 99 } }
/-- a block of account 7 that acknowledges `wA1` (identifier 2) -/
def wAckA : Block := { acct := 7, height := 1, prev := 0, ack := 2, payload := 0, id := 20 }

/-- non-vacuity of the reorganisation theorems: a node on branch A (two momentums, a pooled block acknowledging A's
    first momentum) is given branch B (three momentums): accepted, chain = B, the pool is empty; the abandoned branch
    delivered again is refused as not longer (it is shorter now); B delivered again, in any order, changes nothing; a side
    chain of EQUAL height is refused -/
example :
    (deliverR wVM false (runR wVM [.deliver [wA1, wA2], .gossip wAckA]) [wB1, wB2, wB3]).2 = .ok ∧
    ((runR wVM [.deliver [wA1, wA2], .gossip wAckA]).pool 7).map (·.1.id) = [20] ∧
    (runR wVM [.deliver [wA1, wA2], .gossip wAckA, .deliver [wB1, wB2, wB3]]).chain.map (·.id) = [6, 4, 3] ∧
    (runR wVM [.deliver [wA1, wA2], .gossip wAckA, .deliver [wB1, wB2, wB3]]).pool 7 = [] ∧
    (deliverR wVM false (runR wVM [.deliver [wA1, wA2], .deliver [wB1, wB2, wB3]]) [wA1, wA2]).2 = .notLonger ∧
    (deliverR wVM false (runR wVM [.deliver [wA1, wA2], .deliver [wB1, wB2, wB3]]) [wB2, wB1, wB3]).2 = .ok ∧
    (deliverR wVM false (runR wVM [.deliver [wA1, wA2]]) [wB1, wB2]).2 = .notLonger := by decide

/-- negative witness for `pool_after_reorg_sound`: the variant of `RollbackTo` that does NOT drop the pool
    (`keepPool = true`) keeps, across the switch from branch A to branch B, a pooled block whose acknowledged momentum is
    no longer on the chain — `ledgerAt` answers `none` for it, so its pooled patch is not the value of `exec` in any
    context of the current chain; the code (`keepPool = false`) ends with an empty pool -/
theorem pool_kept_across_rollback_unsound :
    ((deliverR wVM true (runR wVM [.deliver [wA1, wA2], .gossip wAckA]) [wB1, wB2, wB3]).1.pool 7).map (·.1.id) = [20] ∧
    (deliverR wVM true (runR wVM [.deliver [wA1, wA2], .gossip wAckA]) [wB1, wB2, wB3]).1.chain.map (·.id) = [6, 4, 3] ∧
    ledgerAt wVM (deliverR wVM true (runR wVM [.deliver [wA1, wA2], .gossip wAckA]) [wB1, wB2, wB3]).1.hist wAckA.ack
      = none ∧
    (deliverR wVM false (runR wVM [.deliver [wA1, wA2], .gossip wAckA]) [wB1, wB2, wB3]).1.pool 7 = [] := by decide

/-- F7d at node level (known finding, kept visible): `InsertChain` rolls back BEFORE it verifies the side chain. A node
    on branch A (height 3) is given [B1, bad B2, B3] — links to genesis, claims height 4 > 3 — the rollback happens, B1 is
    accepted, B2 fails the changes-hash comparison: the call returns index 1 and the node is left on a chain of height 2,
    SHORTER than the one it had, holding none of its former momentums. `failure_index_exact` describes exactly this state. -/
theorem failed_reorg_leaves_node_shorter :
    (deliverR wVM false (runR wVM [.deliver [wA1, wA2]]) [wB1, wB2bad, wB3]).2 = .verify 1 ∧
    (runR wVM [.deliver [wA1, wA2]]).chain.map (·.id) = [5, 2] ∧
    (deliverR wVM false (runR wVM [.deliver [wA1, wA2]]) [wB1, wB2bad, wB3]).1.chain.map (·.id) = [3] := by decide

/-- negative witness for the order condition of `accepts_same_next`: the momentum lists [b1, b2] of one account but the
    batch carries the blocks as [b2, b1]. A node that pooled b1 before (gossip) executes b2 on top of it, recognises b1
    as pooled, and accepts; a node with the same chain and an empty pool cannot link b2 and refuses. In content order both
    accept. -/
def wb1 : Block := { acct := 7, height := 1, prev := 0, ack := 1, payload := 0, id := 20 }
def wb2 : Block := { acct := 7, height := 2, prev := 20, ack := 1, payload := 0, id := 21 }
def wOrdered : DM :=
  (produce wVM (runR wVM [.gossip wb1, .gossip wb2])
    { id := 2, height := 2, prev := 0, content := [wb1.hdr, wb2.hdr], changesHash := 0 }).getD default
def wReordered : DM := { wOrdered with blocks := [wb2, wb1] }

theorem reordered_blocks_need_the_pool :
    (stepR wVM (runR wVM [.gossip wb1]) wReordered).2 = true ∧
    (stepR wVM (runR wVM []) wReordered).2 = false ∧
    (stepR wVM (runR wVM [.gossip wb1]) wOrdered).2 = true ∧
    (stepR wVM (runR wVM []) wOrdered).2 = true := by decide

/-! ### the shape of the code the model follows (AST of the working tree, regenerated on every run) -/

set_option maxRecDepth 100000 in
/-- `InsertChain` (model: `deliverR`): the skip loop stops at the first height the node does not hold or holds with another
    hash; the side-chain `if` stands BEFORE the insert loop and is the only place that calls `RollbackTo` (once, on the
    target's identifier); inside it, in this order: target by `head.Height - 1`, nil ⇒ link error, identifier ≠ previous ⇒
    link error, `frontier − target > 30` ⇒ too far (the constant and operator of `Gen.InsertChainWindow` /
    `InsertChainWindowOp`, which the model uses), `tail.Height <= frontier` ⇒ not longer, THEN the rollback (F7d: before any
    verification) — all returning index 0; every error test of the insert loop returns `index + start` at once (no
    continuation after a failed momentum). -/
theorem reorg_shape_in_code :
    Gen.nrSkipLoop =
      ["our, err := store.GetMomentumByHeight(momentums[start].Momentum.Height)", "if err != nil => return start, err",
       "if our == nil => break", "if our.Hash != momentums[start].Momentum.Hash => break"] ∧
    Gen.nrTopLevel =
      ["if len(momentums) == 0 => return 0, nil", "for start < len(momentums)",
       "if start == len(momentums) => return 0, nil", "if err != nil => return 0, err",
       "if head.Previous() != ourFrontier.Identifier()", "range momentums", "return 0, nil"] ∧
    Gen.nrSideBranch =
      ["target, err := store.GetMomentumByHeight(head.Height - 1)", "if err != nil => return 0, err",
       "if target == nil => return 0, errors.Errorf(\"can't link momentums to insert. First momentum Prev is %v but we have no momentum at that height\")",
       "if target.Identifier() != head.Previous() => return 0, errors.Errorf(\"can't link momentums to insert. First momentum Prev is %v but he have %v\")",
       "if ourFrontier.Height-target.Height > 30 => return 0, errors.Errorf(\"can't rollback to %v. Too far. Frontier is %v. Wanted to be able to insert %v\")",
       "if tail.Height <= ourFrontier.Height => return 0, errors.Errorf(\"won't insert side-chain which is not longer\")",
       "err = c.chain.RollbackTo(insert, target.Identifier())",
       "if err != nil => return 0, errors.Errorf(\"unable to rollback to %v. Reason:%v\")"] ∧
    Gen.nrRollbackCalls = 1 ∧ Gen.nrRollbackCallsInSideBranch = 1 ∧
    Gen.nrLoopErrBranches =
      ["return index + start, err", "return index + start, err", "return index + start, err",
       "return index + start, err"] ∧
    Gen.InsertChainWindow = 30 ∧ Gen.InsertChainWindowOp = ">" ∧ Gen.InsertChainLongerOp = "<=" ∧
    Gen.InsertChainRollbackBeforeApplyLoop = true := by decide

set_option maxRecDepth 100000 in
/-- `AddMomentumTransaction` (model: the `prev = frontier` test of `stepMomentum` / the height test of `stepR`): a momentum is
    committed only on top of the frontier — the test stands before `chainManager.Add` (9a5065f: siblings are refused) -/
theorem momentum_only_on_frontier :
    Gen.nrAddMomentumPrevTests =
      ["if frontier := c.getFrontierStore().Identifier(); momentum.Previous() != frontier => return errors.Errorf(\"can't insert momentum %v. previous doesn't match with current frontier %v\")"] ∧
    Gen.nrAddMomentumCommitsBeforePrevTest = false := by decide

/-- `RollbackTo` + `accountPool.DeleteMomentum` (model: `rollback`, `keepPool = false`): every popped momentum is announced
    once to the listeners after the pop, and the account pool answers by replacing ALL its managers with an empty map —
    nothing of the deleted momentum is put back -/
theorem rollback_drops_whole_pool :
    Gen.PoolDeleteMomentumStmts =
      ["ap.changes.Lock()", "defer ap.changes.Unlock()", "ap.managers = make(map[types.Address]db.Manager)"] ∧
    Gen.RollbackToPopCalls = 1 ∧ Gen.RollbackToNotifyCalls = 1 ∧ Gen.RollbackToPopAt = 7 ∧ Gen.RollbackToNotifyAt = 9 ∧
    Gen.ChainRegistersAccountPool = true := by decide

end ZV.C06Reorg
