import ZenonVerif.Model.Rpc
/-
C18 — RPC paging: property theorems only.
-/
namespace ZV.C18
open ZV ZV.Rpc

/-- T1 `get_range`: for every index, count and length, GetRange is the statement's slice. -/
theorem get_range (i c n : Nat) : getRange i c n = rangeSpec i c n := by
  unfold getRange rangeSpec
  simp only []
  split
  · simp only [Prod.mk.injEq]; omega
  · split <;> (simp only [Prod.mk.injEq]; omega)

/-- slice is well-formed and never longer than the page size -/
theorem get_range_bounds (i c n : Nat) :
    (getRange i c n).1 ≤ (getRange i c n).2 ∧ (getRange i c n).2 ≤ n ∧
    (getRange i c n).2 - (getRange i c n).1 ≤ c := by
  rw [get_range]; unfold rangeSpec; simp only []; omega

/-- T1′ `pages_partition`: consecutive pages tile the list: page i+1 starts where page i ends, page 0
    starts at 0, and page i is empty exactly when i*c ≥ n. Hence every element appears exactly once. -/
theorem pages_contiguous (i c n : Nat) : (getRange (i + 1) c n).1 = (getRange i c n).2 := by
  rw [get_range, get_range]; unfold rangeSpec; simp only []
  rw [Nat.add_mul]; omega

theorem page_zero_start (c n : Nat) : (getRange 0 c n).1 = 0 := by
  rw [get_range]; unfold rangeSpec; simp

theorem pages_cover (c n : Nat) (hc : 0 < c) : (getRange n c n).2 = n := by
  rw [get_range]; unfold rangeSpec; simp only []
  have : n ≤ n * c := Nat.le_mul_of_pos_right n hc
  omega

/-- the element at list position p (< n) lies on page p / c and on no other page -/
theorem element_on_unique_page (p c n i : Nat) (hc : 0 < c) (hp : p < n) :
    ((getRange i c n).1 ≤ p ∧ p < (getRange i c n).2) ↔ i = p / c := by
  rw [get_range]; unfold rangeSpec; simp only []
  constructor
  · intro ⟨h1, h2⟩
    have h1' : i * c ≤ p := by omega
    have h2' : p < i * c + c := by omega
    have : p / c = i := by
      apply Nat.div_eq_of_lt_le
      · exact h1'
      · rw [Nat.add_mul]; omega
    omega
  · intro h
    subst h
    have h1 := Nat.div_mul_le_self p c
    have h2 : p < p / c * c + c := by
      have h3 := Nat.div_add_mod p c
      have h4 := Nat.mod_lt p hc
      rw [Nat.mul_comm] at h3; omega
    omega

/-- N1 (negative witness, pre-fix code): with uint32 arithmetic page 4194304 of size 1024 of a
    10-element list is page 0 again. Kept to document finding F2 and to make the search target explicit. -/
theorem get_range32_wraps : getRange32 4194304 1024 10 = (0, 10) ∧ rangeSpec 4194304 1024 10 = (10, 10) := by
  decide

end ZV.C18

namespace ZV.C18
open ZV ZV.Rpc

/-- T2 `by_page_height`: for every chain height H, page index i (with i+1 < 2^32) and page size c, the page is
    empty when the chain has at most i·c elements, and otherwise requests exactly the height interval
    [max 1 (H − (i+1)·c + 1), H − i·c]. -/
theorem by_page_height (H i c : Nat) (hi : i + 1 < two32) :
    pageRequest H i c =
      if H ≤ i * c ∨ c = 0 then none
      else some (max 1 (H + 1 - (i + 1) * c), min c (H - i * c)) := by
  unfold pageRequest
  have hm : (i + 1) % two32 = i + 1 := Nat.mod_eq_of_lt hi
  simp only [hm]
  have e : ((i + 1 : Nat) : Int) * (c : Int) = ((i * c + c : Nat) : Int) := by
    push_cast; rw [Int.add_mul]; simp
  rw [e]
  have e2 : (i + 1) * c = i * c + c := by rw [Nat.add_mul]; simp
  rw [e2]
  generalize i * c = ic
  by_cases hT : (1 - ((H : Int) - ((ic + c : Nat) : Int) + 1) > 0)
  · simp only [hT, if_true]
    by_cases h1 : H ≤ ic ∨ c = 0
    · rw [if_pos h1, if_pos (by omega)]
    · rw [if_neg h1, if_neg (by omega)]
      congr 1
      simp only [Prod.mk.injEq]
      constructor <;> omega
  · simp only [hT, if_false]
    by_cases h1 : H ≤ ic ∨ c = 0
    · rw [if_pos h1, if_pos (by omega)]
    · rw [if_neg h1, if_neg (by omega)]
      congr 1
      simp only [Prod.mk.injEq]
      constructor <;> omega

/-- the page never asks for more than the page size and never reaches below height 1 or above H -/
theorem page_request_bounds (H i c s n : Nat) (hi : i + 1 < two32) (h : pageRequest H i c = some (s, n)) :
    1 ≤ s ∧ 1 ≤ n ∧ n ≤ c ∧ s + n - 1 = H - i * c ∧ s + n - 1 ≤ H := by
  rw [by_page_height H i c hi] at h
  split at h
  · cases h
  · rename_i h1
    simp only [Option.some.injEq, Prod.mk.injEq] at h
    have e2 : (i + 1) * c = i * c + c := by rw [Nat.add_mul]; simp
    rw [e2] at h
    generalize i * c = ic at *
    omega

/-- consecutive pages are adjacent: page i+1 ends right below where page i starts; page 0 ends at the frontier.
    Hence paging through all indices yields every height 1..H exactly once, newest first. -/
theorem pages_adjacent (H i c s n s' n' : Nat) (hi : i + 2 < two32)
    (h : pageRequest H i c = some (s, n)) (h' : pageRequest H (i + 1) c = some (s', n')) :
    s' + n' = s := by
  rw [by_page_height H i c (by omega)] at h
  rw [by_page_height H (i + 1) c (by omega)] at h'
  split at h
  · cases h
  · split at h'
    · cases h'
    · simp only [Option.some.injEq, Prod.mk.injEq] at h h'
      have e2 : (i + 1) * c = i * c + c := by rw [Nat.add_mul]; simp
      have e3 : (i + 1 + 1) * c = i * c + c + c := by rw [Nat.add_mul, Nat.add_mul]; simp
      rw [e2] at h h'
      rw [e3] at h'
      generalize i * c = ic at *
      omega

theorem first_page_ends_at_frontier (H c s n : Nat) (h : pageRequest H 0 c = some (s, n)) : s + n - 1 = H := by
  have := page_request_bounds H 0 c s n (by decide) h
  omega

/-- T3 `by_height_bounds`: a by-height query returns only heights that exist, inside the requested window, in
    ascending order without repetition, and never more than `count` of them -/
theorem by_height_bounds (H h count : Nat) :
    (∀ x ∈ byHeight H h count, 1 ≤ x ∧ x ≤ H ∧ h ≤ x ∧ x < h + count) ∧ (byHeight H h count).length ≤ count ∧
    (byHeight H h count).Pairwise (· < ·) := by
  unfold byHeight
  refine ⟨?_, ?_, ?_⟩
  · intro x hx
    simp only [List.mem_filter, List.mem_map, List.mem_range, decide_eq_true_eq] at hx
    obtain ⟨⟨k, hk, rfl⟩, h1, h2, _⟩ := hx
    omega
  · exact Nat.le_trans (List.length_filter_le _ _) (by simp)
  · apply List.Pairwise.filter
    rw [List.pairwise_map]
    exact List.Pairwise.imp (fun hab => by omega) List.pairwise_lt_range

/-- every existing height of the window is returned -/
theorem by_height_complete (H h count x : Nat) (hH : H < two64) (h1 : 1 ≤ x) (h2 : x ≤ H) (h3 : h ≤ x) (h4 : x < h + count) :
    x ∈ byHeight H h count := by
  unfold byHeight
  simp only [List.mem_filter, List.mem_map, List.mem_range, decide_eq_true_eq]
  exact ⟨⟨x - h, by omega, by omega⟩, h1, h2, by omega⟩

/-- N (excluded point, shown for completeness): at pageIndex = 2^32 − 1 the uint32 increment wraps to 0 and the
    request starts above the frontier — the page is empty, never a repeat of earlier elements -/
theorem last_index_wraps_to_empty : pageHeights 100 4294967295 10 = [] ∧ pageHeights 100 0 10 = [100, 99, 98, 97, 96, 95, 94, 93, 92, 91] := by
  decide

end ZV.C18
