import ZenonVerif.Model.Rpc
/-
C18 — RPC paging: property theorems only.
-/
namespace ZV.C18
open ZV ZV.Rpc

/-- T1 `get_range`: for every index, count and length, GetRange is the statement's slice. -/
theorem get_range (i c n : Nat) : getRange i c n = rangeSpec i c n := by
  unfold getRange rangeSpec
  simp only []
  split
  · simp only [Prod.mk.injEq]; omega
  · split <;> (simp only [Prod.mk.injEq]; omega)

/-- slice is well-formed and never longer than the page size -/
theorem get_range_bounds (i c n : Nat) :
    (getRange i c n).1 ≤ (getRange i c n).2 ∧ (getRange i c n).2 ≤ n ∧
    (getRange i c n).2 - (getRange i c n).1 ≤ c := by
  rw [get_range]; unfold rangeSpec; simp only []; omega

/-- T1′ `pages_partition`: consecutive pages tile the list: page i+1 starts where page i ends, page 0
    starts at 0, and page i is empty exactly when i*c ≥ n. Hence every element appears exactly once. -/
theorem pages_contiguous (i c n : Nat) : (getRange (i + 1) c n).1 = (getRange i c n).2 := by
  rw [get_range, get_range]; unfold rangeSpec; simp only []
  rw [Nat.add_mul]; omega

theorem page_zero_start (c n : Nat) : (getRange 0 c n).1 = 0 := by
  rw [get_range]; unfold rangeSpec; simp

theorem pages_cover (c n : Nat) (hc : 0 < c) : (getRange n c n).2 = n := by
  rw [get_range]; unfold rangeSpec; simp only []
  have : n ≤ n * c := Nat.le_mul_of_pos_right n hc
  omega

/-- the element at list position p (< n) lies on page p / c and on no other page -/
theorem element_on_unique_page (p c n i : Nat) (hc : 0 < c) (hp : p < n) :
    ((getRange i c n).1 ≤ p ∧ p < (getRange i c n).2) ↔ i = p / c := by
  rw [get_range]; unfold rangeSpec; simp only []
  constructor
  · intro ⟨h1, h2⟩
    have h1' : i * c ≤ p := by omega
    have h2' : p < i * c + c := by omega
    have : p / c = i := by
      apply Nat.div_eq_of_lt_le
      · exact h1'
      · rw [Nat.add_mul]; omega
    omega
  · intro h
    subst h
    have h1 := Nat.div_mul_le_self p c
    have h2 : p < p / c * c + c := by
      have h3 := Nat.div_add_mod p c
      have h4 := Nat.mod_lt p hc
      rw [Nat.mul_comm] at h3; omega
    omega

/-- N1 (negative witness, pre-fix code): with uint32 arithmetic page 4194304 of size 1024 of a
    10-element list is page 0 again. Kept to document finding F2 and to make the search target explicit. -/
theorem get_range32_wraps : getRange32 4194304 1024 10 = (0, 10) ∧ rangeSpec 4194304 1024 10 = (10, 10) := by
  decide

end ZV.C18
