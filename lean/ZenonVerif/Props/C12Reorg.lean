import ZenonVerif.Model.Pow
/-
C12, plasma accounting across reorganisations and pool operations: the plasma available to a block is a function of
the chain AT THE ACKNOWLEDGED MOMENTUM and of the account's blocks that are not confirmed as of that momentum - no
history (an abandoned branch, what the pool held before a rollback) enters. The `plasma-avail` lines of the
plasma-reorg stream compare `availableOnChain`, fed with facts the harness reads from the chain itself (replay of the
plasma contract's receives, FusedPlasma fields and confirmation heights of the account's blocks), with the real
vm.AvailablePlasma after every rollback / side-chain insertion / re-delivery.
-/
namespace ZV.C12Reorg
open ZV ZV.Pow

private theorem sumNat_append (a b : List Nat) : sumNat (a ++ b) = sumNat a + sumNat b := by
  induction a with
  | nil => simp [sumNat]
  | cons x xs ih => simp [sumNat, ih]; omega

/-- the counter of the chain = what is confirmed as of h + what is not -/
theorem uncommitted_split (blocks : List AccBlk) (h : Nat) :
    uncommittedOf blocks = committedAt blocks h + uncommittedOf (blocks.filter (fun b => !confirmedBy h b)) := by
  unfold uncommittedOf committedAt
  induction blocks with
  | nil => simp [sumNat]
  | cons b bs ih =>
    by_cases hb : confirmedBy h b = true
    · simp [List.filter, hb, sumNat, ih]; omega
    · have hb' : confirmedBy h b = false := by simpa using hb
      simp [List.filter, hb', sumNat, ih]; omega

/-- the committed figure cancels: only the plasma of the blocks NOT confirmed as of the acknowledged momentum is subtracted -/
theorem available_committed_cancels (q : Int) (c u : Nat) : availablePlasma q c (c + u) = availablePlasma q 0 u := by
  unfold availablePlasma
  have : ((fusedAmountToPlasma q : Nat) : Int) + (c : Int) - ((c + u : Nat) : Int)
       = ((fusedAmountToPlasma q : Nat) : Int) + ((0 : Nat) : Int) - (u : Int) := by
    push_cast; omega
  simp only [this]

/-- HISTORY-FREE: availability on a chain is `availablePlasma` of the QSR fused as of the acknowledged momentum and of
    the fused plasma of the account's blocks that momentum does not confirm - nothing else -/
theorem available_history_free (genesis : Int) (evs : List FuseEv) (blocks : List AccBlk) (h : Nat) :
    availableOnChain genesis evs blocks h
      = availablePlasma (fusedQsrAt genesis evs h) 0 (uncommittedOf (blocks.filter (fun b => !confirmedBy h b))) := by
  unfold availableOnChain
  rw [uncommitted_split blocks h, available_committed_cancels]

/-- two chains (the abandoned and the adopted one, or the chain of a reorganised node and of a node that only ever saw
    the adopted chain) that hold the same plasma-contract receives up to the acknowledged momentum and the same blocks
    of the account that are unconfirmed as of it give the same availability - whatever else they hold above it -/
theorem available_same_on_agreeing_chains (genesis : Int) (evs₁ evs₂ : List FuseEv) (b₁ b₂ : List AccBlk) (h : Nat)
    (hev : evs₁.filter (fun e => e.height ≤ h) = evs₂.filter (fun e => e.height ≤ h))
    (hb : b₁.filter (fun b => !confirmedBy h b) = b₂.filter (fun b => !confirmedBy h b)) :
    availableOnChain genesis evs₁ b₁ h = availableOnChain genesis evs₂ b₂ h := by
  rw [available_history_free, available_history_free, hb]
  unfold fusedQsrAt
  rw [hev]

private theorem avail_zero (q : Int) (hp : fusedAmountToPlasma q = 0) (c r : Nat) :
    availablePlasma q c (c + r) = if r = 0 then some 0 else none := by
  rw [available_committed_cancels]
  unfold availablePlasma
  simp only [hp]
  by_cases hr : r = 0
  · subst hr
    have h1 : ¬ (((0 : Nat) : Int) + ((0 : Nat) : Int) - ((0 : Nat) : Int) < 0) := by decide
    have h2 : ¬ (((0 : Nat) : Int) + ((0 : Nat) : Int) - ((0 : Nat) : Int) > (Gen.MaxFussedAmountForAccountBig : Int)) := by decide
    simp only [h1, h2, if_false]
    decide
  · have h1 : ((0 : Nat) : Int) + ((0 : Nat) : Int) - (r : Int) < 0 := by omega
    simp only [h1, if_true, hr, if_false]

/-- a fusion that exists only ABOVE the acknowledged momentum (or on another branch: not among the receives of this
    chain at all) gives nothing: with no QSR fused as of h a block carrying fused plasma is never accepted -/
theorem no_plasma_without_fusion_on_chain (genesis : Int) (evs : List FuseEv) (blocks : List AccBlk) (h : Nat)
    (fused difficulty base total : Nat) (hq : fusedQsrAt genesis evs h ≤ 0) (hf : 0 < fused) :
    enoughPlasma (fusedQsrAt genesis evs h) (committedAt blocks h) (uncommittedOf blocks) fused difficulty base ≠ .ok total := by
  have hp : fusedAmountToPlasma (fusedQsrAt genesis evs h) = 0 := by
    unfold fusedAmountToPlasma; simp [hq]
  unfold enoughPlasma
  rw [uncommitted_split blocks h, avail_zero _ hp]
  by_cases hr : uncommittedOf (blocks.filter (fun b => !confirmedBy h b)) = 0
  · simp [hr, hf]
  · simp [hr]

/-- non-vacuity / the seeded history in one instance: 10 QSR fused at height 3 of branch A give one block's worth as of
    height 3; on a chain without that receive the same block has nothing -/
example : availableOnChain 0 [⟨3, 1000000000⟩] [] 3 = some 21000 := by decide
example : availableOnChain 0 [] [] 3 = some 0 := by decide
example : availableOnChain 0 [⟨3, 1000000000⟩] [] 2 = some 0 := by decide
example : availableOnChain 0 [⟨3, 2000000000⟩] [⟨some 3, 21000⟩, ⟨none, 21000⟩] 4 = some 21000 := by decide
example : availableOnChain 0 [⟨3, 2000000000⟩, ⟨5, -2000000000⟩] [⟨none, 21000⟩] 5 = none := by decide

end ZV.C12Reorg
