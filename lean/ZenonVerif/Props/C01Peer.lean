import ZenonVerif.Model.PeerDesc
import ZenonVerif.Props.C01
/-
C01, peer-delivered contract blocks: the descendants a node applies and stores for a contract receive are the ones it
regenerated, never the ones a peer delivered. Hence the ledger step a FOLLOWER takes for a delivered contract receive is
the producer's step (`crecv` with the regenerated descendants) and conservation (T1) carries over whatever the peer put
into the descendant blocks. Tie: peerdesc stream, lines `PD-deliver` (Driver/PeerDesc.lean): real follower, lying peer.
-/
namespace ZV.C01Peer
open ZV.Ledger ZV.PeerDesc

/-- what is stored after an accepted delivery is the regenerated list -/
theorem stored_descendants_are_regenerated {α : Type} (gen ds : List α) (d : Delivery α)
    (h : accept gen d = some ds) : ds = gen := by
  unfold accept at h
  split at h
  · exact (Option.some.inj h).symm
  · cases h

/-- the content of the delivered descendant objects plays no part: verdict and stored blocks are the same for every
    list of descendant objects delivered under the same hash fields -/
theorem delivered_descendant_content_irrelevant {α : Type} (gen : List α) (d : Delivery α) (descs' : List α) :
    accept gen { d with descs := descs' } = accept gen d := rfl

/-- a delivery whose own covered fields do not hash to the delivered hash field is refused -/
theorem altered_own_field_refused {α : Type} (gen : List α) (d : Delivery α) (h : d.ownOk = false) :
    accept gen d = none := by
  simp [accept, h]

/-- a copy delivered while the node holds the block changes nothing -/
theorem delivery_of_held_block_ignored {α : Type} (held : List α) (d : Delivery α) : acceptHeld held d = held := rfl

/-- the follower's ledger step for an accepted delivery IS the step with the regenerated descendants - the delivered
    descendants `d.descs` do not occur in it - and it preserves well-formedness and conservation (T1) -/
theorem follower_step_conserves_whatever_is_delivered (s s' : State) (c : Addr) (h : Hash) (status : Nat)
    (gen ds : List Desc) (d : Delivery Desc) (hacc : accept gen d = some ds)
    (hg : s.gate = true) (hw : WF s) (hc : Conserved s) (hf : Fresh s (.crecv c h status gen))
    (hok : step s (.crecv c h status ds) = .ok s') :
    step s (.crecv c h status gen) = .ok s' ∧ WF s' ∧ Conserved s' := by
  have e := stored_descendants_are_regenerated gen ds d hacc
  subst e
  exact ⟨hok, ZV.C01.conservation_step s s' _ hg hw hc hf hok⟩

/-- non-vacuity, and the seeded shape: a refund of 5 delivered with the amount tripled is accepted and stored with 5 -/
example : accept [(⟨17, znnTok, 5, 1, .none⟩ : Desc)]
    { ownOk := true, changesSame := true, hashSame := true, descs := [⟨17, znnTok, 15, 1, .none⟩] }
    = some [⟨17, znnTok, 5, 1, .none⟩] := by decide

end ZV.C01Peer
